#!/bin/bash
# MANIFEST.setup_cmd: offline, idempotent. Makes sure hypothesis is importable by /venv/bin/python
# and (best effort) atheris under /verif/.deps for the thorough fuzz tier.
set -u
HERE="$(cd "$(dirname "${BASH_SOURCE[0]}")" && pwd)"
PY=/venv/bin/python
WH=/opt/veriftools/wheels
if ! $PY -c "import hypothesis" 2>/dev/null; then
  /venv/bin/pip install --no-index --find-links $WH hypothesis || { echo "setup: cannot install hypothesis"; exit 1; }
fi
mkdir -p "$HERE/.deps" "$HERE/evidence" "$HERE/replays"
if ! PYTHONPATH="$HERE/.deps" $PY -c "import atheris" 2>/dev/null; then
  /venv/bin/pip install --no-index --find-links $WH --target "$HERE/.deps" atheris >/dev/null 2>&1 \
    || echo "setup: atheris not installable; thorough fuzz tier falls back to hypothesis only"
fi
$PY -c "import hypothesis, bitarray; print('setup ok: hypothesis', hypothesis.__version__, 'bitarray', bitarray.__version__)"
