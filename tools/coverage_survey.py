#!/venv/bin/python
"""tools/coverage_survey.py [PROP ...] : line coverage of /repo/bitstring reached by one shard (1/16) of the quick tier of every
sub-check, measured with sys.monitoring (no third-party package). Prints, per source file, the executable lines never reached,
grouped by enclosing function - a map of what no generator aims at. Development aid only; not part of any check."""
import ast, importlib, os, sys, json
HERE = os.path.dirname(os.path.dirname(os.path.abspath(__file__)))
REPO = os.environ.get('VF_REPO', '/repo')
sys.path[:0] = [REPO, HERE, os.path.join(HERE, '.deps')]
os.environ.setdefault('BITSTRING_VERIF', '1')
os.environ.setdefault('VF_TMP', '/tmp/vf_cov')
os.makedirs(os.environ['VF_TMP'], exist_ok=True)
hit = {}
mon = sys.monitoring
TOOL = 3
mon.use_tool_id(TOOL, 'vfcov')
pkg = os.path.join(REPO, 'bitstring') + os.sep


def on_line(code, line):
    fn = code.co_filename
    if fn.startswith(pkg):
        hit.setdefault(fn, set()).add(line)
    return mon.DISABLE


mon.register_callback(TOOL, mon.events.LINE, on_line)
mon.set_events(TOOL, mon.events.LINE)
from vf import engine
props = [a.upper() for a in sys.argv[1:]] or [f'C{i:02d}' for i in range(1, 21)]
for p in props:
    mod = importlib.import_module('vf.props.' + p.lower())
    for s in mod.SUBCHECKS:
        r = engine.shard_task((mod.__name__, s.name, 'quick', 1, 0, 16, 60))
        print(p, s.name, 'evals', r.get('evals'), 'fail' if r.get('fail') else '', (r.get('harness') or '')[-200:], file=sys.stderr)
mon.set_events(TOOL, 0)
out = {}
for root, _, files in os.walk(pkg):
    for f in files:
        if not f.endswith('.py') or f in ('luts.py',):
            continue
        path = os.path.join(root, f)
        tree = ast.parse(open(path).read())
        funcs = []
        for node in ast.walk(tree):
            if isinstance(node, (ast.FunctionDef, ast.AsyncFunctionDef)):
                funcs.append((node.lineno, node.end_lineno, node.name))
        execl = set()
        for node in ast.walk(tree):
            if isinstance(node, ast.stmt) and not isinstance(node, (ast.FunctionDef, ast.ClassDef, ast.Import, ast.ImportFrom)):
                if isinstance(node, ast.Expr) and isinstance(getattr(node, 'value', None), ast.Constant) and isinstance(node.value.value, str):
                    continue
                execl.add(node.lineno)
        missed = sorted(execl - hit.get(path, set()))
        byf = {}
        for l in missed:
            encl = [x for x in funcs if x[0] <= l <= x[1]]
            name = min(encl, key=lambda x: x[1] - x[0])[2] if encl else '<module>'
            byf.setdefault(name, []).append(l)
        out[os.path.relpath(path, REPO)] = {'executable': len(execl), 'missed': len(missed), 'by_function': byf}
tot_e = sum(v['executable'] for v in out.values()); tot_m = sum(v['missed'] for v in out.values())
print(f'TOTAL executable={tot_e} missed={tot_m} covered={100 * (tot_e - tot_m) / tot_e:.1f}%')
for fn, v in sorted(out.items()):
    print(f"\n{fn}: {v['executable'] - v['missed']}/{v['executable']}")
    for name, ls in sorted(v['by_function'].items(), key=lambda kv: kv[1][0]):
        if name != '<module>':
            print(f'   {name}: {ls}')
