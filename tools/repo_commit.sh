#!/bin/bash
# tools/repo_commit.sh "<commit message>" : runs the repository's test suite (guard off) and commits /repo only if all 836 pass
cd /repo || exit 2
out=$(env -u BITSTRING_VERIF /venv/bin/python -m pytest -q -p no:cacheprovider --timeout=900 2>&1 | tail -1)
echo "$out"
if echo "$out" | grep -q "836 passed" && ! echo "$out" | grep -q failed; then
  git commit -qam "$1" && git log --oneline | head -1
else
  echo "NOT COMMITTED: test suite does not pass"; exit 1
fi
