#!/bin/bash
# usage: tools/with_mutant.sh '<sed-expr>' <file-relative-to-repo> <PROP> [tier] [extra check args]
# Copies /repo's package to a scratch dir, applies the sed expression, runs the check against it, removes the copy.
set -u
EXPR="$1"; FILE="$2"; PROP="$3"; TIER="${4:-quick}"; shift 4 2>/dev/null || shift 3
D=$(mktemp -d /tmp/vfmut.XXXXXX)
cp -r /repo/bitstring "$D/bitstring"
sed -i "$EXPR" "$D/$FILE"
if diff -q /repo/$FILE "$D/$FILE" >/dev/null; then echo "MUTANT DID NOT APPLY"; rm -rf "$D"; exit 3; fi
VF_REPO="$D" "$(dirname "$0")/../check" "$PROP" "$TIER" "$@" | grep -E "VIOLATION|detail|evaluations|HARNESS" | cut -c1-400
rc=${PIPESTATUS[0]}
rm -rf "$D"
exit $rc
