#!/venv/bin/python
"""tools/recheck_seeds.py [NAME ...] [--tier quick] : re-run the owning property's check against every saved seeded change
(scratch copy of /repo HEAD + patch.diff), update seeded/<name>/meta.json and print a table."""
import json, os, shutil, subprocess, sys, tempfile
from concurrent.futures import ThreadPoolExecutor
HERE = os.path.dirname(os.path.dirname(os.path.abspath(__file__)))
args = sys.argv[1:]
tier = 'quick'
if '--tier' in args:
    i = args.index('--tier'); tier = args[i + 1]; del args[i:i + 2]
names = args or sorted(os.listdir(os.path.join(HERE, 'seeded')))


def one(name):
    d = os.path.join(HERE, 'seeded', name)
    meta = json.load(open(os.path.join(d, 'meta.json')))
    props = meta.get('check_with') or [meta['property']]
    scratch = tempfile.mkdtemp(prefix='vfseed_')
    try:
        subprocess.run(f'git -C /repo archive HEAD bitstring | tar -x -C {scratch}', shell=True, check=True)
        p = subprocess.run(f'patch -p1 --no-backup-if-mismatch < {d}/patch.diff', shell=True, cwd=scratch, capture_output=True, text=True)
        if p.returncode != 0:
            return name, 'PATCH-FAILS', {}
        env = dict(os.environ, PYTHONPATH=scratch)
        demo = subprocess.run(['/venv/bin/python', os.path.join(d, 'demo.py')], cwd=scratch, env=env, capture_output=True, text=True)
        res = {}
        for pr in props:
            env = dict(os.environ, VF_REPO=scratch, VF_PROCS='8')
            r = subprocess.run([os.path.join(HERE, 'check'), pr, tier], cwd=HERE, env=env, capture_output=True, text=True)
            lines = [l for l in r.stdout.splitlines() if l.startswith('VIOLATION') or l.startswith('  detail')]
            res[pr] = {'tier': tier, 'detected': r.returncode == 1 and bool(lines), 'exit': r.returncode, 'first_lines': [l[:300] for l in lines[:2]]}
        meta['checks_run'] = res
        meta.setdefault('confirmed', {})['demo_fails_with_change_at_recheck'] = demo.returncode != 0
        json.dump(meta, open(os.path.join(d, 'meta.json'), 'w'), indent=1)
        return name, 'demo-fails' if demo.returncode != 0 else 'DEMO-PASSES(!)', res
    finally:
        shutil.rmtree(scratch, ignore_errors=True)


with ThreadPoolExecutor(int(os.environ.get("VF_RECHECK_PAR", "2"))) as ex:
    for name, st, res in ex.map(one, names):
        print(f"{name:36s} {st:16s} " + ' '.join(f"{p}:{'DETECTED' if v['detected'] else 'missed(exit %d)' % v['exit']}" for p, v in res.items()))
