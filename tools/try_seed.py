#!/venv/bin/python
"""tools/try_seed.py <dir containing seed_k.diff demo_k.py meta_k.json> <k> <PROP> [more PROPs...] [--tier quick|thorough] [--no-tests] [--save NAME]

Confirms a seeded change in a scratch copy of /repo HEAD (outside /repo and /verif): it applies, the repository's test
suite still passes, the demo fails with it and passes without it; then runs the registered checks against the changed copy
and reports which detect it. With --save the change is stored under /verif/seeded/NAME/ (patch.diff, demo.py, meta.json)."""
import json
import os
import re
import shutil
import subprocess
import sys
import tempfile

HERE = os.path.dirname(os.path.dirname(os.path.abspath(__file__)))


def sh(cmd, cwd=None, env=None, timeout=3600):
    e = dict(os.environ)
    if env:
        e.update(env)
    p = subprocess.run(cmd, shell=True, cwd=cwd, env=e, capture_output=True, text=True, timeout=timeout)
    return p.returncode, p.stdout + p.stderr


def main():
    args = sys.argv[1:]
    tier = 'quick'
    save = None
    run_tests = True
    if '--tier' in args:
        i = args.index('--tier'); tier = args[i + 1]; del args[i:i + 2]
    if '--save' in args:
        i = args.index('--save'); save = args[i + 1]; del args[i:i + 2]
    if '--no-tests' in args:
        args.remove('--no-tests'); run_tests = False
    d, k, props = args[0], args[1], args[2:]
    diff = os.path.join(d, f'seed_{k}.diff')
    demo = os.path.join(d, f'demo_{k}.py')
    meta = json.load(open(os.path.join(d, f'meta_{k}.json')))
    scratch = tempfile.mkdtemp(prefix='vfseed_')
    report = {'applies': False}
    try:
        rc, out = sh(f'git -C /repo archive HEAD | tar -x -C {scratch}')
        rc, out = sh(f'patch -p1 --no-backup-if-mismatch < {os.path.abspath(diff)}', cwd=scratch)
        report['applies'] = rc == 0
        if rc != 0:
            print('PATCH DOES NOT APPLY\n' + out[-800:])
            return 3
        if run_tests:
            rc, out = sh('/venv/bin/python -m pytest -q -p no:cacheprovider --timeout=900 -x 2>&1 | tail -3', cwd=scratch)
            m = re.search(r'(\d+) passed', out)
            report['tests'] = out.strip().splitlines()[-1] if out.strip() else ''
            report['tests_pass'] = bool(m) and int(m.group(1)) >= 836 and 'failed' not in out
        rc1, out1 = sh(f'/venv/bin/python {os.path.abspath(demo)}', cwd=scratch, env={'PYTHONPATH': scratch})
        rc0, out0 = sh(f'/venv/bin/python {os.path.abspath(demo)}', cwd='/repo', env={'PYTHONPATH': '/repo'})
        report['demo_fails_with_change'] = rc1 != 0
        report['demo_passes_without'] = rc0 == 0
        report['demo_output_with_change'] = out1.strip()[-400:]
        det = {}
        for p in props:
            rc, out = sh(f'{HERE}/check {p} {tier}', cwd=HERE, env={'VF_REPO': scratch, 'VERIF_SEED': os.environ.get('VERIF_SEED', '1')})
            lines = [l for l in out.splitlines() if l.startswith('VIOLATION') or l.startswith('  detail')]
            det[p] = {'exit': rc, 'detected': rc == 1 and any(l.startswith('VIOLATION') for l in lines), 'lines': [l[:300] for l in lines[:6]]}
            if rc == 2:
                det[p]['harness'] = out[-1500:]
        report['detection'] = det
        print(json.dumps(report, indent=1))
        ok = report['applies'] and report.get('tests_pass', True) and report['demo_fails_with_change'] and report['demo_passes_without']
        print('CONFIRMED' if ok else 'NOT CONFIRMED', '| detected by:', [p for p, v in det.items() if v['detected']])
        if save and ok:
            dst = os.path.join(HERE, 'seeded', save)
            os.makedirs(dst, exist_ok=True)
            shutil.copy(diff, os.path.join(dst, 'patch.diff'))
            shutil.copy(demo, os.path.join(dst, 'demo.py'))
            meta_out = {'property': meta.get('property'), 'summary': meta.get('summary'), 'needs': meta.get('needs'), 'files': meta.get('files'),
                        'confirmed': {'repo_head': subprocess.check_output(['git', '-C', '/repo', 'log', '--format=%h', '-1'], text=True).strip(),
                                      'test_suite_with_change': report.get('tests'), 'demo_fails_with_change': True, 'demo_passes_without': True,
                                      'how': 'tools/try_seed.py: patch applied to a scratch export of /repo HEAD, pytest run there, demo run against both trees'},
                        'checks_run': {p: {'tier': tier, 'detected': v['detected'], 'first_lines': v['lines'][:2]} for p, v in det.items()}}
            json.dump(meta_out, open(os.path.join(dst, 'meta.json'), 'w'), indent=1)
            print('saved to', dst)
        return 0 if ok else 4
    finally:
        shutil.rmtree(scratch, ignore_errors=True)


if __name__ == '__main__':
    sys.exit(main())
