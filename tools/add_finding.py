#!/venv/bin/python
"""tools/add_finding.py <finding-id> <PROP> fixed|known <replay-json> "<what failed>"   (fixed: uses /repo HEAD short sha)"""
import json, os, shutil, subprocess, sys
HERE = os.path.dirname(os.path.dirname(os.path.abspath(__file__)))
fid, prop, status, replay, what = sys.argv[1:6]
dst = f'findings/{fid}.json'
if os.path.abspath(replay) != os.path.abspath(os.path.join(HERE, dst)):
    shutil.copy(replay, os.path.join(HERE, dst))
k = json.load(open(os.path.join(HERE, 'known_findings.json')))
k['findings'] = [f for f in k['findings'] if f['id'] != fid]
e = {'id': fid, 'property': prop, 'status': status, 'witness': dst}
if status == 'fixed':
    sha = sys.argv[6] if len(sys.argv) > 6 else subprocess.check_output(['git', '-C', '/repo', 'log', '--format=%h', '-1'], text=True).strip()
    e['commit'] = sha
    e['what'] = f'fixed: property={prop} {sha} {what}'
else:
    e['what'] = what
k['findings'].append(e)
json.dump(k, open(os.path.join(HERE, 'known_findings.json'), 'w'), indent=1)
print('recorded', e)
