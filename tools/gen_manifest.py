#!/venv/bin/python
"""Regenerates /verif/MANIFEST.json from the table below (run after adding a property module)."""
import json
import os

HERE = os.path.dirname(os.path.dirname(os.path.abspath(__file__)))

TECH = {
    'C01': 'Hypothesis property-based testing against a str/list reference model + exhaustive small-world enumeration',
    'C02': 'Hypothesis PBT: differential against stdlib encoders (format/int.to_bytes/struct) + route-agreement + round-trip',
    'C03': 'Hypothesis PBT (single ops and model-based operation sequences) against a list-of-bits reference model',
    'C04': 'Hypothesis model-based stateful testing: shadow-value invariant over derivation/mutation histories',
    'C05': 'Hypothesis PBT over a generated format AST: differential against independent per-token encoders, round-trip and compositional (metamorphic) relations; atheris fuzzing in thorough',
    'C06': 'Hypothesis model-based stateful testing against a (bits,pos) reference machine',
    'C07': 'Hypothesis PBT: differential against a brute-force scan on the bit string',
    'C08': 'Hypothesis PBT: differential between construction routes (twin object built from plain text)',
    'C09': 'Hypothesis model-based history testing: warm interpreter vs cold-cache sidecar process (differential)',
    'C10': 'Exhaustive enumeration + Hypothesis PBT against reference exp-Golomb encoders/decoders written from the tables',
    'C11': 'Exhaustive enumeration of all codes x all float16 inputs + Hypothesis PBT against an exact-rational (Fraction) model',
    'C12': 'Hypothesis PBT with a metamorphic mirror relation (lsb0 op == reverse(msb0 op on reversed operands)) + toggle histories',
    'C13': 'Hypothesis PBT: equality/hash contract against the (len, bits) model over classes, routes and operand kinds',
    'C14': 'Hypothesis model-based stateful testing of Array against a (python list, encoder, trailing bits) model',
    'C15': 'Hypothesis PBT against a total accept/reject classifier with boundary-biased generators + enumerated grids (integer limits, object lengths)',
    'C16': 'Hypothesis PBT + exhaustive small-world enumeration against Python int arithmetic; algebraic laws',
    'C17': 'Hypothesis PBT: round-trip and differential against int.to_bytes over windows, real files and chunk boundaries',
    'C18': 'Hypothesis PBT: differential against struct/array from the standard library; byteswap involution',
    'C19': 'Hypothesis PBT: round-trip (parse the printed text back) and layout validity predicates',
    'C20': 'Hypothesis stateful fuzzing of the public API with adversarial values; exception-class and post-state validity oracle; atheris in thorough',
}

LEVEL_TEXT = {
    'C01': 'Exploration: every sequence operation (len/bool/iter/index/slice/+/*) of the four classes is compared with the same operation on the Python str of the bits over boundary-biased contents (to 17 kbit), 28 construction routes, all operand kinds and huge indices; plus a complete enumeration of all contents of length <= 5 (quick) / 7 (thorough) x all index and slice triples. Holds on everything explored.',
    'C02': 'Exploration: (dtype, length, value, creation route, class) and (dtype, pattern, reading route) products against standard-library encoders; 13 creation and 11 reading routes must agree bit for bit, and building again after a previously built object was modified must still be canonical; plus a complete grid of every integer dtype x every width to 130 bits x the values at and next to both limits.',
    'C03': 'Exploration: every mutator (single calls and sequences of up to 80 calls on one object) against a str-of-bits model that returns the set of acceptable outcomes; whole-content comparison after every step implies the frame condition.',
    'C04': 'Exploration over derivation/mutation histories: a shadow value per live object (incl. external sources and bitarrays from tobitarray) must survive every mutation of any related object; immutables are poked with every mutator name and in-place operator; 230 (dtype, length, value) recipes built repeatedly through 8 routes with edits in between; 14 kinds of external buffers; empty-string objects.',
    'C05': 'Exploration over a generated format grammar (AST): pack bits/length, unpack/readlist inverse, token-string equivalence and compositional (metamorphic) relations against independent per-token encoders; arity and size errors; formats also given as lists of strings split at any top-level position.',
    'C06': 'Exploration over stream histories against a (bits,pos) reference machine: value, consumed bits, ReadError + unchanged pos, documented moves, derived streams at 0, and 0 <= pos <= len after every step.',
    'C07': 'Exploration: every search/split/count/replace call is compared with a scan on the Python str of the bits, over boundary-biased data (incl. > 8192-bit data), windows, counts and both sources of the bytealigned setting.',
    'C08': 'Exploration, differential: an object built through any of 38 construction routes (memory, files by name/handle with offset/length grid, caches, both bitarray endiannesses) must behave exactly like its twin cls(bin=content) under 65 operations and every mutator, in msb0 and lsb0.',
    'C09': 'Exploration over call histories: each call in a warm interpreter is compared with the same call on cold caches (sidecar process, discovery cross-validated against fresh interpreters) under the same option values (the cold answer comes from a child forked per call from a process that evaluated nothing), incl. > 256-key eviction histories on every cache-keyed path, failing calls, Dtype objects with different scales, option changes and mutation of earlier results.',
    'C10': 'Complete enumeration of an integer window and of all decoder inputs up to a length bound (quick 11 bits / thorough 16 bits) plus generated values to 2^200 mixed code sequences (token strings, Dtype objects with and without scale), Dtype.parse, and encoders re-run in histories with in-place edits, against encoders/decoders written from the standards\' tables.',
    'C11': 'Complete enumeration: every code of every format and all 65536 half-precision inputs x 7 formats x 2 overflow modes against an exact rational model; complete mxint / e8m0 boundary grids (every multiple of 1/256 and its float neighbours; every power of two and its neighbours); generated float64 inputs around rounding midpoints and overflow thresholds; scaled dtypes and scale=\'auto\'; encoders re-run in histories.',
    'C12': 'Exploration with a metamorphic mirror oracle computed on the independent str models (lsb0 result == reverse(msb0 model on reversed operands)), mode-independent observables, and option toggle histories.',
    'C13': 'Exploration: == / != / hash against equality of (len, bits) over classes, 26 routes (shared source files, in-place flips), lengths around the 2000-bit hash threshold, promotable and non-promotable operands.',
    'C14': 'Exploration over Array histories against a (list of item encodings, trailing bits, dtype) model with independent codecs; element-wise operators against the Python operator mapped over the items with the documented promotion.',
    'C15': 'Complete grid (every integer dtype x width 1..130 x eight values around both limits; all 17 routes in thorough) plus exploration against a total accept/reject classifier: illegal lengths, invalid digits, source windows, preludes that use the same value with related dtypes first, bare-name property assignment at every object length 0..136; rejected assignments must leave the target unchanged.',
    'C16': 'Exploration + complete small world: bitwise operators and shifts against Python int arithmetic, algebraic laws, error cases, operand immutability, shift counts up to 2^100.',
    'C17': 'Exploration + enumerated chunk-boundary sizes (hook) + the real 100 MiB chunk boundary + Array.tofile of 1-16 MiB with item sizes that divide no block: bytes written/returned vs int.to_bytes, read-back windows vs the selected source bits.',
    'C18': 'Exploration, differential against struct and array from the standard library; endian relations by byte reversal; struct records swapped with their own format (string / counts / size list, behind a header, once or repeated); byteswap involution.',
    'C19': 'Every length 0..1100 (2100 in thorough) x 4 classes, plus exploration over 14 construction routes: printed text is parsed back (Bits(str), eval(repr), digits of pp lines) and checked against layout predicates, in both bit numbering modes and colour settings.',
    'C20': 'Exploration (API fuzzing with typed adversarial arguments in histories): exception-class oracle plus validity of every involved object and of the module options; two known findings (segfaults inside the third-party bitarray extension for del and int-assignment with slice steps beyond 2**63-2) excluded by construction and counted; a worker killed by a signal is turned into a minimised violation by re-running its traced case in a child process.',
}

NOTE = 'Trusted: CPython, hypothesis, the str/int/struct/fractions reference models in /verif/vf (self-tested against the documentation examples at the start of every run). bitarray (C extension) is part of the code under test only through bitstring. Bounded by the generated sizes/case counts recorded in the evidence file.'


def main():
    props = [json.loads(l) for l in open(os.path.join(HERE, 'properties.jsonl'))]
    checks = []
    na = []
    for p in props:
        pid = p['id']
        if os.path.exists(os.path.join(HERE, 'vf', 'props', pid.lower() + '.py')):
            checks.append({
                'property_id': pid,
                'quick_cmd': f'./check {pid} quick',
                'thorough_cmd': f'./check {pid} thorough',
                'evidence_file': f'evidence/{pid}.json',
                'replay_cmd_template': f'./check {pid} --replay {{path}}',
                'engine': 'vf',
                'level_claimed': {'category': 'exploration',
                                  'text': LEVEL_TEXT.get(pid, 'Generated-input search against an explicit, independent oracle (see technique and DESIGN.md section); holds on everything explored, complete only for the finite sub-domains marked exhaustive in the evidence.'),
                                  'design_ref': f'DESIGN.md section 5, {pid}'},
                'level_note': NOTE,
                'technique': TECH[pid],
            })
        else:
            na.append({'property_id': pid, 'reason': 'check not built yet in this session (planned: ' + TECH[pid] + ')'})
    m = {
        'version': 1,
        'setup_cmd': './setup.sh',
        'hooks': {'guard': 'BITSTRING_VERIF', 'enable': 'BITSTRING_VERIF=1 in the environment of the check process (set by ./check); pure Python, nothing to build',
                  'baseline_off_cmd': 'cd /repo && env -u BITSTRING_VERIF /venv/bin/python -m pytest -ra -q -p no:cacheprovider --timeout=900',
                  'source_commits': json.load(open(os.path.join(HERE, 'tools', 'hook_commits.json'))) if os.path.exists(os.path.join(HERE, 'tools', 'hook_commits.json')) else [],
                  'add_only': True},
        'engines': [{'name': 'vf', 'path': 'vf/', 'serves_properties': [c['property_id'] for c in checks],
                     'kind_free_text': 'Python harness: sharded Hypothesis search (16 processes), exhaustive enumerators, replay of saved JSON cases, known-findings handling, evidence writer'}],
        'checks': checks,
        'not_applicable': na,
        'notes': 'Every check: ./check <ID> quick|thorough ; exit 0 = held on everything explored, exit 1 + VIOLATION line = counterexample (replay file is the shrunk JSON case), exit 2 = harness error. VERIF_SEED selects the Hypothesis seed. known_findings.json lists genuine defects (fixed in /repo by fix: commits, or known).',
    }
    with open(os.path.join(HERE, 'MANIFEST.json'), 'w') as f:
        json.dump(m, f, indent=1)
    print('checks:', [c['property_id'] for c in checks], 'not_applicable:', [n['property_id'] for n in na])


if __name__ == '__main__':
    main()
