#!/venv/bin/python
import json, sys
pid = sys.argv[1]
rnd = int(sys.argv[2]) if len(sys.argv) > 2 else 1
round2 = rnd >= 2
for l in open('/verif/properties.jsonl'):
    p = json.loads(l)
    if p['id'] == pid:
        break
wt = f'/tmp/wt/{pid}'
extra = ''
if round2:
    import glob, os
    prev = []
    for d in sorted(glob.glob(f'/verif/seeded/{pid}-*')):
        try:
            prev.append('  - ' + (json.load(open(os.path.join(d, 'meta.json'))).get('summary') or '')[:220])
        except Exception:
            pass
    extra = ("ADDITIONAL REQUIREMENTS FOR THIS ROUND: an earlier round already produced the changes summarised below; do NOT repeat them or close variants of them "
             "(pick other functions / other clauses of the property / other mechanisms):\n" + '\n'.join(prev) + "\nAll THREE changes of this round should need a rather specific trigger "
             "(particular sizes or alignments, particular option values such as options.lsb0 / options.bytealigned / options.mxfp_overflow, a particular order of several calls, particular "
             "class or dtype combinations, values at numeric limits, rarely used keyword arguments or input types) - none of them should be exposed by the most ordinary use of the feature. "
             f"Write the files of this round as seed_k.diff / demo_k.py / meta_k.json with k = {3 * rnd - 2}, {3 * rnd - 1}, {3 * rnd}.\n\n"
             + ("The demos must put the checkout they are run from first on sys.path (sys.path.insert(0, os.getcwd())) before importing bitstring. Earlier rounds have used up the obvious ideas (option-dependent helpers, shared caches, numeric limits): look for less visited code paths and for interactions between two features.\n\n" if rnd >= 3 else ""))
print(f"""You are helping to evaluate a verification effort for the open-source Python library `bitstring` (scott-griffiths/bitstring, a pure-Python bit-level binary data library built on the `bitarray` C extension). Your job is to act as a realistic "bug seeder".

You have your own scratch git worktree of the library at {wt} (a detached checkout). Work ONLY inside {wt} (never touch /repo or /verif, and do not read anything under /verif). Python is /venv/bin/python. When you run things from inside {wt} (e.g. `cd {wt} && /venv/bin/python -m pytest -q -p no:cacheprovider --timeout=900`, or `cd {wt} && /venv/bin/python demo.py`) the worktree's own `bitstring` package is the one imported (check `bitstring.__file__` starts with {wt}). The existing test suite is in {wt}/tests (836 tests, takes ~25 s).

Here is a semantic property of the library that is supposed to hold for every input/history:

  Title: {p['title']}
  Statement: {p['statement']}
  Quantified over: {p['quantifier']['text']}

TASK: produce THREE different, independent source changes to the library (under {wt}/bitstring/) each of which BREAKS this property while (a) the package still imports, and (b) the ENTIRE existing test suite still passes (all 836 tests; run it). Each change should look like a plausible regression a maintainer could introduce (an optimisation, refactor, off-by-one, wrong boundary, missed copy, stale cache, swapped branch, ...), NOT a sabotage that ordinary use would expose at once. Prefer changes that need something specific to manifest: an unusual input (particular length/alignment/boundary, negative index/step, specific class combination, large size, particular option setting), a multi-step sequence of operations, or two cooperating sites that each look fine alone. Make the three changes differ in which part of the property they break (different operations/code paths) and in how "deep" the trigger is (one moderately easy, two that need a rather specific trigger).

For each change k in 1,2,3 write these files into {wt}/seeded/ (create the directory):
  - seed_k.diff : a unified diff (`git diff` output, paths relative to the repo root, applies with `git apply` to a clean checkout) containing ONLY that change.
  - demo_k.py   : a small standalone program (only imports bitstring and the stdlib) that exits 0 and prints PASS on the unmodified library and exits 1 (prints FAIL and what differed) when the change is applied. It must demonstrate a violation of the property as stated (not merely a behaviour difference the property does not cover).
  - meta_k.json : {{"property": "{pid}", "summary": "<one line: what was changed>", "needs": "<what is needed for the violation to manifest>", "files": ["bitstring/..."]}}

Procedure for each change: start from a clean tree (`git -C {wt} checkout -- bitstring`), make the edit, run the full test suite and confirm 836 passed, run your demo and confirm it FAILS, save `git -C {wt} diff -- bitstring > seeded/seed_k.diff`, then revert (`git -C {wt} checkout -- bitstring`) and confirm the demo PASSES on the clean tree. If the test suite fails with your change, pick a different change. Leave the worktree clean (only the seeded/ directory added) when you finish.

{extra}Finally reply with a short summary: for each k, what you changed, what triggers it, and confirmation of the three verifications (tests pass with change, demo fails with change, demo passes without).""")
