"""./check <PROP> quick|thorough [--only sub,sub] [--jobs N]    |    ./check <PROP> --replay <file>"""
import importlib
import os
import sys
import time


def main(argv):
    if len(argv) < 2:
        print(__doc__)
        return 2
    prop = argv[0].upper()
    from vf import engine
    try:
        mod = importlib.import_module('vf.props.' + prop.lower())
    except ImportError as e:
        print(f'HARNESS ERROR: no module for {prop}: {e}', file=sys.stderr)
        return 2
    if argv[1] == '--replay':
        try:
            return engine.replay(prop, mod, argv[2])
        except engine.HarnessError as e:
            print(f'HARNESS ERROR: {e}', file=sys.stderr)
            return 2
    tier = argv[1]
    if tier not in ('quick', 'thorough'):
        print(__doc__)
        return 2
    tier = os.environ.get('VERIF_TIER', tier) if os.environ.get('VERIF_TIER') in ('quick', 'thorough') and False else tier
    only = None
    jobs = None
    rest = argv[2:]
    while rest:
        a = rest.pop(0)
        if a == '--only':
            only = set(rest.pop(0).split(','))
        elif a == '--jobs':
            jobs = int(rest.pop(0))
    try:
        seed = int(os.environ.get('VERIF_SEED', '1'))
    except ValueError:
        seed = 1
    t0 = time.time()
    try:
        lines, violations, harness, ev = engine.run_property(prop, mod, tier, seed, only=only, jobs=jobs)
    except engine.HarnessError as e:
        print(f'HARNESS ERROR: {e}', file=sys.stderr)
        return 2
    for l in lines:
        print(l)
    cov = ev['coverage']
    print(f"{prop} {tier} seed={seed}: {cov['evaluations']} evaluations, {cov['distinct_nontrivial']} distinct non-trivial, "
          f"{len(violations)} violation(s), excluded_known={cov['excluded_known']}, {time.time() - t0:.1f}s")
    if os.environ.get('VF_VERBOSE'):
        for name, s in cov['by_subcheck'].items():
            print(f"  {name}: evals={s['evaluations']} nt={s['distinct_nontrivial']} wall={s['wall_s']}s "
                  f"{'TIMEBOX ' if s.get('stopped_by_wall_clock_budget') else ''}labels={dict(list(s['labels'].items())[:12])}")
    if harness:
        for h in harness[:2]:
            print('HARNESS ERROR: ' + h[-1500:], file=sys.stderr)
        print(f'({len(harness)} harness error(s) in total)', file=sys.stderr)
        return 2
    return 1 if violations else 0


if __name__ == '__main__':
    sys.exit(main(sys.argv[1:]))
