"""Reference codecs for every fixed-width dtype, written with the standard library only (never bitstring's own code).

encode(name, value, nbits) -> '01' string        decode(name, bits) -> value
A value is the Python object the library documents for the dtype (int, float, lower-case digit str, bytes, bool, '01' str
for 'bits')."""
import math
import struct
import sys

from hypothesis import strategies as st

LITTLE = sys.byteorder == 'little'

ALIASES = {'u': 'uint', 'i': 'int', 'h': 'hex', 'o': 'oct', 'b': 'bin', 'f': 'float', 'floatbe': 'float', 'bfloatbe': 'bfloat',
           'uintne': 'uintle' if LITTLE else 'uintbe', 'intne': 'intle' if LITTLE else 'intbe',
           'floatne': 'floatle' if LITTLE else 'float', 'bfloatne': 'bfloatle' if LITTLE else 'bfloat'}

INT_TYPES = ['uint', 'int', 'uintbe', 'intbe', 'uintle', 'intle', 'uintne', 'intne']
FLOAT_TYPES = ['float', 'floatbe', 'floatle', 'floatne']
BFLOAT_TYPES = ['bfloat', 'bfloatbe', 'bfloatle', 'bfloatne']
TEXT_TYPES = ['hex', 'oct', 'bin']
ALL_FIXED = INT_TYPES + FLOAT_TYPES + BFLOAT_TYPES + TEXT_TYPES + ['bytes', 'bool', 'bits']


def canon(name):
    return ALIASES.get(name, name)


def is_signed(name):
    return canon(name) in ('int', 'intbe', 'intle')


def valid_length(name, n):
    """n = bit length. Is it a legal length for this dtype?"""
    c = canon(name)
    if n is None:
        return False
    if c in ('uint', 'int', 'bin'):
        return n >= 1 if c != 'bin' else n >= 0
    if c in ('uintbe', 'intbe', 'uintle', 'intle'):
        return n >= 8 and n % 8 == 0
    if c == 'hex':
        return n >= 0 and n % 4 == 0
    if c == 'oct':
        return n >= 0 and n % 3 == 0
    if c == 'bytes':
        return n >= 0 and n % 8 == 0
    if c == 'bool':
        return n == 1
    if c == 'bits':
        return n >= 0
    if c in ('float', 'floatle'):
        return n in (16, 32, 64)
    if c in ('bfloat', 'bfloatle'):
        return n == 16
    raise KeyError(name)


def unit(name):
    """bits per unit of the token's length (bytes:3 is 24 bits)."""
    return 8 if canon(name) == 'bytes' else 1


def int_range(name, n):
    if is_signed(name):
        return -(1 << (n - 1)), (1 << (n - 1)) - 1
    return 0, (1 << n) - 1


def _bits_of_bytes(b):
    return ''.join(format(x, '08b') for x in b)


def _bytes_of_bits(bits):
    return bytes(int(bits[i:i + 8], 2) for i in range(0, len(bits), 8))


def _rev_bytes(bits):
    return ''.join(reversed([bits[i:i + 8] for i in range(0, len(bits), 8)]))


FLOAT_FMT = {16: 'e', 32: 'f', 64: 'd'}


def encode(name, value, n):
    c = canon(name)
    if c in ('uint', 'uintbe', 'uintle', 'int', 'intbe', 'intle'):
        lo, hi = int_range(c, n)
        if not lo <= value <= hi:
            raise ValueError('out of range')
        bits = format(value & ((1 << n) - 1), f'0{n}b')
        return _rev_bytes(bits) if c.endswith('le') else bits
    if c == 'hex':
        return ''.join(format(int(ch, 16), '04b') for ch in value)
    if c == 'oct':
        return ''.join(format(int(ch, 8), '03b') for ch in value)
    if c == 'bin':
        return value
    if c == 'bits':
        return value
    if c == 'bytes':
        return _bits_of_bytes(value)
    if c == 'bool':
        return '1' if value else '0'
    if c in ('float', 'floatle'):
        b = struct.pack('>' + FLOAT_FMT[n], value)
        bits = _bits_of_bytes(b)
        return _rev_bytes(bits) if c == 'floatle' else bits
    if c in ('bfloat', 'bfloatle'):
        try:
            b = struct.pack('>f', value)
        except OverflowError:
            b = struct.pack('>f', math.copysign(math.inf, value))
        bits = _bits_of_bytes(b[:2])
        return _rev_bytes(bits) if c == 'bfloatle' else bits
    raise KeyError(name)


def decode(name, bits):
    c = canon(name)
    n = len(bits)
    if c in ('uint', 'uintbe', 'uintle', 'int', 'intbe', 'intle'):
        if c.endswith('le'):
            bits = _rev_bytes(bits)
        v = int(bits, 2)
        if is_signed(c) and bits[0] == '1':
            v -= 1 << n
        return v
    if c == 'hex':
        return ''.join(format(int(bits[i:i + 4], 2), 'x') for i in range(0, n, 4))
    if c == 'oct':
        return ''.join(format(int(bits[i:i + 3], 2), 'o') for i in range(0, n, 3))
    if c in ('bin', 'bits'):
        return bits
    if c == 'bytes':
        return _bytes_of_bits(bits)
    if c == 'bool':
        return bits == '1'
    if c in ('float', 'floatle'):
        if c == 'floatle':
            bits = _rev_bytes(bits)
        return struct.unpack('>' + FLOAT_FMT[n], _bytes_of_bits(bits))[0]
    if c in ('bfloat', 'bfloatle'):
        if c == 'bfloatle':
            bits = _rev_bytes(bits)
        return struct.unpack('>f', _bytes_of_bits(bits) + b'\x00\x00')[0]
    raise KeyError(name)


def same_value(a, b):
    """value equality with NaN == NaN, -0.0 != 0.0, and bool/int kept apart only by value."""
    if isinstance(a, float) and isinstance(b, float):
        if math.isnan(a) or math.isnan(b):
            return math.isnan(a) and math.isnan(b)
        return a == b and math.copysign(1, a) == math.copysign(1, b)
    if hasattr(a, 'bin') and not isinstance(b, (int, float, bytes)):
        return a.bin == (b.bin if hasattr(b, 'bin') else b)
    if hasattr(b, 'bin') and isinstance(a, str):
        return a == b.bin
    return type(a) is type(b) and a == b if not (isinstance(a, (bool, int)) and isinstance(b, (bool, int))) else a == b


# ---------------------------------------------------------------------------------------------
# strategies

@st.composite
def length_for(draw, name, max_bits=300):
    c = canon(name)
    if c in ('uint', 'int', 'bin', 'bits'):
        n = draw(st.sampled_from([1, 2, 3, 7, 8, 9, 15, 16, 17, 31, 32, 33, 63, 64, 65, 127, 128, 129]) | st.integers(1, max_bits))
        if c in ('bin', 'bits') and draw(st.integers(0, 15)) == 0:
            n = 0
        return n
    if c in ('uintbe', 'intbe', 'uintle', 'intle', 'bytes'):
        return 8 * draw(st.sampled_from([1, 2, 3, 4, 5, 7, 8, 9, 16]) | st.integers(1, max(1, max_bits // 8)))
    if c == 'hex':
        return 4 * draw(st.integers(1, max_bits // 4))
    if c == 'oct':
        return 3 * draw(st.integers(1, max_bits // 3))
    if c == 'bool':
        return 1
    if c in ('float', 'floatle'):
        return draw(st.sampled_from([16, 32, 64]))
    if c in ('bfloat', 'bfloatle'):
        return 16
    raise KeyError(name)


@st.composite
def pattern(draw, n):
    """a bit pattern of n bits, biased to interesting float/int shapes"""
    if n == 0:
        return ''
    k = draw(st.integers(0, 9))
    if k == 0:
        return '0' * n
    if k == 1:
        return '1' * n
    if k == 2:
        return '1' + '0' * (n - 1)
    if k == 3:
        return '0' + '1' * (n - 1)
    if k == 4:
        return '0' * (n - 1) + '1'
    if n in (16, 32, 64) and k == 5:
        # float specials: exponent all ones / all zeros
        ebits = {16: 5, 32: 8, 64: 11}[n]
        e = draw(st.sampled_from(['0' * ebits, '1' * ebits, '0' * (ebits - 1) + '1', '1' * (ebits - 1) + '0']))
        m = draw(st.sampled_from(['0' * (n - 1 - ebits), '1' * (n - 1 - ebits), '0' * (n - 2 - ebits) + '1', '1' + '0' * (n - 2 - ebits)]))
        return draw(st.sampled_from('01')) + e + m
    return format(draw(st.integers(0, (1 << n) - 1)), f'0{n}b')


@st.composite
def value_for(draw, name, n):
    """an in-range value for (dtype, bit length n): generated from a bit pattern so floats are exactly representable"""
    c = canon(name)
    if c in ('uint', 'int', 'uintbe', 'intbe', 'uintle', 'intle') and n >= 1 and draw(st.integers(0, 2)) == 0:
        lo, hi = int_range(c, n)
        return draw(st.sampled_from([lo, hi, max(lo, min(hi, lo + 1)), max(lo, hi - 1), 0, max(lo, -1), min(hi, 1), hi // 2, lo // 2]))
    return decode(name, draw(pattern(n)))


def render_text(name, value, style=0):
    """Different accepted spellings of a text value (prefix, upper case, underscores/spaces)."""
    c = canon(name)
    pre = {'hex': '0x', 'oct': '0o', 'bin': '0b'}[c]
    s = value
    if style % 2:
        s = pre + s
    if (style // 2) % 2 and c == 'hex':
        s = s.upper().replace('0X', '0x')
    if (style // 4) % 2 and len(value) > 2:
        k = len(s) // 2
        s = s[:k] + '_' + s[k:]
    return s


def selftest():
    assert encode('uint', 5, 4) == '0101' and decode('int', '1011') == -5
    assert encode('intle', -2, 16) == '1111111011111111' and decode('uintle', '0000000100000000') == 1
    assert encode('hex', 'a5', 8) == '10100101' and decode('oct', '111000') == '70'
    assert encode('float', 1.0, 16) == format(0x3c00, '016b') and decode('floatle', _rev_bytes(format(0x3c00, '016b'))) == 1.0
    assert encode('bfloat', 1.0, 16) == format(0x3f80, '016b') and decode('bfloat', format(0x3f80, '016b')) == 1.0
    assert encode('bytes', b'\x01\x80', 16) == '0000000110000000'
    for nm in ALL_FIXED:
        for n in (1, 8, 16, 24, 32, 64):
            if valid_length(nm, n):
                for p in ('0' * n, '1' * n, '01' * (n // 2) + '0' * (n % 2)):
                    v = decode(nm, p)
                    if not (isinstance(v, float) and math.isnan(v)):
                        assert encode(nm, v, n) == p, (nm, n, p)


@st.composite
def float_between_st(draw, n):
    """a double that struct can pack into an n-bit (16/32) float but that is not (in general) exactly representable there: a point between two
    neighbouring representable values - rounding midpoints, midpoint +- a little, just above the largest finite value"""
    import struct as _struct
    r = decode('float', draw(pattern(n)))
    if math.isnan(r) or math.isinf(r):
        r = 65504.0 if n == 16 else float.fromhex('0x1.fffffep+127')
    p, min_exp = (11, -24) if n == 16 else (24, -149)
    ulp = 2.0 ** max(math.frexp(abs(r))[1] - p, min_exp) if r else 2.0 ** min_exp
    frac = draw(st.sampled_from([0.5, 0.25, 0.75, 0.5 - 2.0 ** -20, 0.5 + 2.0 ** -20, 0.999, 0.001, 1 - 2.0 ** -30, 0.4999, 2.0 ** -25]))
    v = r + math.copysign(ulp * frac, r if r else draw(st.sampled_from([1.0, -1.0])))
    try:
        _struct.pack('>e' if n == 16 else '>f', v)
    except (OverflowError, _struct.error):
        return r
    return v
