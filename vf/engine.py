"""Shared engine: sharded Hypothesis search, exhaustive enumeration, known findings, evidence, replay.

A property module exposes  SUBCHECKS: list[Sub].  A Sub has
  name      'C07.find'
  run       run(case) -> info dict | None ; raises Violation on an oracle mismatch.
            info may hold {'nt': bool (non-trivial), 'labels': [str, ...]}
  strategy  callable(tier) -> hypothesis strategy of JSON-able cases   (or None)
  enum      callable(tier) -> iterable of JSON-able cases (exhaustive part; sharded by index) (or None)
  examples  {'quick': n, 'thorough': m}  total @given cases over all shards
  known     {finding_id: predicate(case) -> bool}   narrow predicates for status:"known" findings
"""
from __future__ import annotations

import hashlib
import json
import multiprocessing
import os
import sys
import time
import traceback
from collections import Counter

HERE = os.path.dirname(os.path.dirname(os.path.abspath(__file__)))
try:
    sys.set_int_max_str_digits(0)      # results such as the uint of a megabit bitstring must be printable in messages
except AttributeError:
    pass
REPO = os.path.realpath(os.environ.get('VF_REPO', '/repo'))


class Violation(AssertionError):
    """The implementation disagrees with the oracle."""


class HarnessError(Exception):
    """The check itself is broken (exit 2, never a VIOLATION)."""


def require(cond, msg, **details):
    if not cond:
        if details:
            msg = msg + ' | ' + ', '.join(f'{k}={_short(v)}' for k, v in details.items())
        raise Violation(msg)


def _short(v, n=160):
    s = repr(v)
    return s if len(s) <= n else s[:n] + '...(%d chars)' % len(s)


class Sub:
    def __init__(self, name, run, strategy=None, enum=None, examples=None, known=None, doc='',
                 enum_exhaustive_note=None, ambient=(), fuzz=False):
        # fuzz: in the thorough tier additionally run a coverage-guided atheris campaign over this sub-check's strategy (supplementary)
        self.fuzz = fuzz
        # ambient: names of module options ('bytealigned') that must NOT influence this sub-check; the engine turns them
        # on in a quarter of the generated cases (key '_amb' of the case) before calling run().
        self.ambient = tuple(ambient)
        self.name = name
        self.run = run
        self.strategy = strategy
        self.enum = enum
        self.examples = examples or {'quick': 2000, 'thorough': 40000}
        self.known = known or {}
        self.doc = doc
        self.enum_exhaustive_note = enum_exhaustive_note


# ---------------------------------------------------------------------------------------------
# importing the code under test

_bs = None


def bitstring_module():
    global _bs
    if _bs is None:
        import bitstring
        f = os.path.realpath(bitstring.__file__)
        if not f.startswith(REPO + os.sep):
            raise HarnessError(f'bitstring imported from {f}, expected under {REPO}')
        _bs = bitstring
    return _bs


def reset_options():
    bs = bitstring_module()
    o = bs.options
    if o.lsb0:
        o.lsb0 = False
    o.bytealigned = False
    o.mxfp_overflow = 'saturate'
    o.no_color = False


_CACHES = None


def discover_caches():
    """Every callable with cache_clear reachable from the package's modules and classes (functools caches of any kind)."""
    import sys
    found = {}
    for mname, mod in list(sys.modules.items()):
        if mod is None or not (mname == 'bitstring' or mname.startswith('bitstring.')):
            continue
        for aname, obj in list(vars(mod).items()):
            cands = [(f'{mname}.{aname}', obj)]
            if isinstance(obj, type) and getattr(obj, '__module__', '').startswith('bitstring'):
                for cname, cobj in list(vars(obj).items()):
                    cands.append((f'{mname}.{aname}.{cname}', getattr(cobj, '__func__', cobj)))
            for name, c in cands:
                if callable(getattr(c, 'cache_clear', None)):
                    found[id(c)] = (name, c)
    return [v for v in found.values()]


def reset_caches():
    """State isolation between cases: a case must be a pure function of its JSON (histories live inside a case)."""
    global _CACHES
    if _CACHES is None:
        bitstring_module()
        _CACHES = discover_caches()
    for _, c in _CACHES:
        c.cache_clear()


def in_repo_traceback(exc) -> bool:
    """True if the exception was raised from a frame inside the package under test."""
    tb = exc.__traceback__
    last = None
    while tb is not None:
        last = tb
        tb = tb.tb_next
    if last is None:
        return False
    fn = os.path.realpath(last.tb_frame.f_code.co_filename)
    return fn.startswith(os.path.join(REPO, 'bitstring') + os.sep)


def digest(case) -> bytes:
    return hashlib.sha1(json.dumps(case, sort_keys=True, default=str).encode()).digest()[:8]


def shrink_for_sample(case, limit=400):
    s = json.dumps(case, default=str)
    if len(s) <= limit:
        return case

    def cut(x):
        if isinstance(x, str) and len(x) > 64:
            return x[:48] + f'...<{len(x)} chars>'
        if isinstance(x, list):
            if len(x) > 12:
                return [cut(i) for i in x[:10]] + [f'...<{len(x)} items>']
            return [cut(i) for i in x]
        if isinstance(x, dict):
            return {k: cut(v) for k, v in x.items()}
        return x
    return cut(case)


# ---------------------------------------------------------------------------------------------
# running one case


def run_case(sub: Sub, case):
    """Returns ('ok', info) | ('known', finding_id) | ('fail', message) | ('harness', message)."""
    reset_options()
    if not getattr(sub, 'keep_caches', False):
        reset_caches()
    try:
        if isinstance(case, dict) and case.get('_amb'):
            o = bitstring_module().options
            for k, v in case['_amb'].items():
                setattr(o, k, v)
        info = sub.run(case) or {}
        return 'ok', info
    except Violation as e:
        kind, msg = 'fail', str(e)
    except HarnessError as e:
        return 'harness', str(e)
    except (MemoryError, RecursionError) as e:
        if in_repo_traceback(e):
            kind, msg = 'fail', f'uncaught {type(e).__name__} from bitstring: {e}'
        else:
            return 'harness', f'{type(e).__name__}: {e}'
    except Exception as e:  # noqa
        if in_repo_traceback(e):
            kind, msg = 'fail', f'uncaught {type(e).__name__} from bitstring: {e}'
        else:
            return 'harness', ''.join(traceback.format_exception(type(e), e, e.__traceback__))[-3000:]
    finally:
        try:
            reset_options()
        except Exception:
            pass
    for fid, pred in sub.known.items():
        if fid in ACTIVE_KNOWN:
            try:
                if pred(case):
                    return 'known', fid
            except Exception:
                pass
    return kind, msg


ACTIVE_KNOWN = set()


def load_findings():
    p = os.path.join(HERE, 'known_findings.json')
    if not os.path.exists(p):
        return []
    with open(p) as f:
        return json.load(f)['findings']


# ---------------------------------------------------------------------------------------------
# one shard of one sub-check

class _Stop(BaseException):   # not an Exception: hypothesis lets it through at once instead of treating the time box as a failing example
    pass


def fuzz_task(modname, subname, tier, seed, shard, budget_s):
    """coverage-guided campaign (atheris + hypothesis fuzz_one_input) in a child interpreter; see vf/fuzz.py"""
    import subprocess
    import shutil
    t0 = time.time()
    out_dir = os.path.join(os.environ.get('VF_TMP', '/tmp'), f'fuzz_{subname}_{shard}')
    env = dict(os.environ)
    env['PYTHONPATH'] = f"{REPO}:{HERE}:{os.path.join(HERE, '.deps')}"
    secs = int(os.environ.get('VF_FUZZ_S', '60'))
    st = {'sub': subname, 'shard': shard, 'evals': 0, 'nt': [], 'samples': [], 'labels': {}, 'excluded': {}, 'fail': None, 'harness': None, 'enum_total': 0,
          'enum_done': True, 'timed_out': False, 'fuzz': True}
    try:
        r = subprocess.run([sys.executable, '-m', 'vf.fuzz', modname, subname, tier, str(seed * 100 + shard + 1), '100000000', out_dir, str(secs)], capture_output=True, text=True,
                           env=env, cwd=HERE, timeout=secs + 120)
        try:
            with open(os.path.join(out_dir, 'stats.json')) as f:
                stats = json.load(f)
            st['evals'] = stats['execs']
            st['labels'] = {'atheris_execs': stats['execs'], 'atheris_nontrivial': stats['nontrivial']}
        except Exception:
            pass
        fpath = os.path.join(out_dir, 'failure.json')
        if os.path.exists(fpath):
            with open(fpath) as f:
                fl = json.load(f)
            st['fail'] = {'case': fl['case'], 'msg': fl['msg'] + ' [found by the atheris campaign]'}
        elif os.path.exists(os.path.join(out_dir, 'harness.txt')):
            st['harness'] = open(os.path.join(out_dir, 'harness.txt')).read()[-1500:]
        elif 'No module named' in r.stderr and 'atheris' in r.stderr:
            st['labels'] = {'atheris_unavailable': 1}
        elif r.returncode not in (0,) and 'ERROR: libFuzzer' in r.stderr and 'timeout' in r.stderr:
            st['fail'] = {'case': {'note': 'libFuzzer timeout: a single case ran > 30 s; see artifact'}, 'msg': 'a generated case did not terminate within 30 s [atheris campaign]'}
    except subprocess.TimeoutExpired:
        st['harness'] = 'atheris campaign did not finish in time'
    finally:
        shutil.rmtree(out_dir, ignore_errors=True)
    st['wall'] = time.time() - t0
    return st


def shard_task(args):
    modname, subname, tier, seed, shard, nshards, budget_s = args
    if shard == 'fuzz':
        try:
            return fuzz_task(modname, subname, tier, seed, 0, budget_s)
        except Exception as e:
            return {'sub': subname, 'shard': 'fuzz', 'harness': ''.join(traceback.format_exception(type(e), e, e.__traceback__))[-2000:]}
    try:
        return _shard_task(modname, subname, tier, seed, shard, nshards, budget_s)
    except Exception as e:  # harness problem
        return {'sub': subname, 'shard': shard, 'harness': ''.join(traceback.format_exception(type(e), e, e.__traceback__))[-3000:]}


def _shard_task(modname, subname, tier, seed, shard, nshards, budget_s):
    import importlib
    mod = importlib.import_module(modname)
    sub = {s.name: s for s in mod.SUBCHECKS}[subname]
    t0 = time.time()
    st = {'sub': subname, 'shard': shard, 'evals': 0, 'nt': set(), 'samples': [], 'labels': Counter(),
          'excluded': Counter(), 'fail': None, 'harness': None, 'enum_total': 0, 'enum_done': True,
          'timed_out': False}

    trace_path = os.path.join(os.environ.get('VF_TMP', '/tmp'), 'current', f'{subname}.{shard}.json')
    os.makedirs(os.path.dirname(trace_path), exist_ok=True)
    trace_fd = os.open(trace_path, os.O_WRONLY | os.O_CREAT | os.O_TRUNC, 0o600)

    def trace(case):
        # the case about to run, so that the parent can tell what killed a worker that dies (segfault in a C extension, OOM kill)
        data = json.dumps(case, default=str).encode()
        os.lseek(trace_fd, 0, 0)
        os.write(trace_fd, data + b'\n')
        os.ftruncate(trace_fd, len(data) + 1)

    def account(case, info):
        st['evals'] += info.get('evals', 1)   # a block case reports how many inputs it evaluated
        if info.get('nt', True):
            d = digest(case)
            if d not in st['nt']:
                st['nt'].add(d)
                if len(st['samples']) < 3 or (len(st['samples']) < 6 and len(st['nt']) % 97 == 0):
                    st['samples'].append(shrink_for_sample(case))
        for l in info.get('labels', ()):
            st['labels'][l] += 1
        for fid, k in (info.get('excluded') or {}).items():
            st['excluded'][fid] += k     # calls skipped by construction because of a known finding

    # ---- exhaustive part
    if sub.enum is not None:
        for i, case in enumerate(sub.enum(tier)):
            st['enum_total'] += 1
            if i % nshards != shard:
                continue
            trace(case)
            kind, info = run_case(sub, case)
            if kind == 'ok':
                account(case, info)
            elif kind == 'known':
                st['evals'] += 1
                st['excluded'][info] += 1
            elif kind == 'harness':
                st['harness'] = info
                return _pack(st, t0)
            else:
                st['evals'] += 1
                st['fail'] = {'case': case, 'msg': info}
                return _pack(st, t0)
            if budget_s and (i & 1023) == 0 and time.time() - t0 > budget_s:
                st['enum_done'] = False
                st['timed_out'] = True
                break

    # ---- generated part
    if sub.strategy is not None:
        import hypothesis
        from hypothesis import given, settings, HealthCheck, Phase
        n = max(1, sub.examples.get(tier, sub.examples['quick']) // nshards)
        last_fail = {}
        # bound the shrinker (hypothesis' own cap is 300 s per failing test): the replay file is whatever it reached by then
        try:
            import hypothesis.internal.conjecture.engine as _ce
            _ce.MAX_SHRINKING_SECONDS = int(os.environ.get('VF_SHRINK_S', '20' if tier == 'quick' else '90'))
        except Exception:
            pass
        hseed = (seed * 1000003 + shard * 7919 + int.from_bytes(hashlib.sha1(subname.encode()).digest()[:4], 'big')) & 0xFFFFFFFF

        inner_strategy = base_strategy = sub.strategy(tier)
        if sub.ambient:
            from hypothesis import strategies as _st

            @_st.composite
            def with_ambient(draw):
                c = draw(inner_strategy)
                if isinstance(c, dict) and draw(_st.integers(0, 3)) == 0:
                    c = dict(c)
                    c['_amb'] = {k: True for k in sub.ambient}
                return c
            base_strategy = with_ambient()

        @hypothesis.seed(hseed)
        @settings(max_examples=n, database=None, deadline=None, derandomize=False, print_blob=False,
                  report_multiple_bugs=False, suppress_health_check=list(HealthCheck),
                  phases=[Phase.generate, Phase.shrink], verbosity=hypothesis.Verbosity.quiet)
        @given(case=base_strategy)
        def prop(case):
            if budget_s and not last_fail and time.time() - t0 > budget_s:
                raise _Stop()
            trace(case)
            kind, info = run_case(sub, case)
            if kind == 'ok':
                account(case, info)
                return
            if kind == 'known':
                st['evals'] += 1
                st['excluded'][info] += 1
                return
            if kind == 'harness':
                st['harness'] = info
                raise _Stop()
            st['evals'] += 1
            last_fail['case'] = case
            last_fail['msg'] = info
            raise Violation(info)

        try:
            prop()
        except _Stop:
            if st['harness'] is None:
                st['timed_out'] = True
        except Violation:
            st['fail'] = {'case': last_fail['case'], 'msg': last_fail['msg']}
        except BaseException as e:  # hypothesis internal errors (flaky etc.)
            if last_fail:
                st['fail'] = {'case': last_fail['case'], 'msg': last_fail['msg'] + f' [hypothesis: {type(e).__name__}]'}
            else:
                st['harness'] = ''.join(traceback.format_exception(type(e), e, e.__traceback__))[-3000:]
    return _pack(st, t0)


def _pack(st, t0):
    st['wall'] = time.time() - t0
    st['nt'] = list(st['nt'])
    st['labels'] = dict(st['labels'])
    st['excluded'] = dict(st['excluded'])
    return st


# ---------------------------------------------------------------------------------------------
# process-per-task scheduler (a worker that dies or hangs costs one task, never the run)

def _child(task, path):
    import pickle
    r = shard_task(task)
    with open(path + '.tmp', 'wb') as f:
        pickle.dump(r, f)
    os.replace(path + '.tmp', path)
    os._exit(0)


def run_case_in_child(sub, case, timeout=120):
    """run one case in a forked child: -> ('ok'|'fail'|'harness'|'known', info) or ('crash', description)"""
    import pickle
    import tempfile
    fd, path = tempfile.mkstemp(prefix='vf_child_', dir=os.environ.get('VF_TMP') or None)
    os.close(fd)
    pid = os.fork()
    if pid == 0:
        try:
            try:
                import resource
                resource.setrlimit(resource.RLIMIT_AS, (6 << 30, 6 << 30))
            except Exception:
                pass
            r = run_case(sub, case)
            with open(path, 'wb') as f:
                pickle.dump(r, f)
        finally:
            os._exit(0)
    t0 = time.time()
    status = None
    while time.time() - t0 < timeout:
        wpid, status = os.waitpid(pid, os.WNOHANG)
        if wpid:
            break
        time.sleep(0.01)
        status = None
    try:
        if status is None:
            os.kill(pid, 9)
            os.waitpid(pid, 0)
            return 'crash', f'the case did not finish within {timeout} s and was killed'
        if os.WIFSIGNALED(status):
            import signal
            sig = os.WTERMSIG(status)
            try:
                name = signal.Signals(sig).name
            except Exception:
                name = str(sig)
            return 'crash', f'the interpreter was killed by signal {name} while running this case'
        try:
            with open(path, 'rb') as f:
                return pickle.load(f)
        except Exception:
            return 'crash', 'the child interpreter exited without a result'
    finally:
        try:
            os.unlink(path)
        except OSError:
            pass


def minimise_crash(sub, case, budget_s=90):
    """ddmin over the list-valued 'steps'/'calls' entry of a crashing case; every trial runs in its own child"""
    key = next((k for k in ('steps', 'calls', 'ops') if isinstance(case, dict) and isinstance(case.get(k), list)), None)
    if key is None:
        return case
    t0 = time.time()
    items = list(case[key])
    n = 2
    while len(items) >= 2 and time.time() - t0 < budget_s:
        chunk = max(1, len(items) // n)
        reduced = False
        for i in range(0, len(items), chunk):
            cand = items[:i] + items[i + chunk:]
            if not cand:
                continue
            kind, _ = run_case_in_child(sub, dict(case, **{key: cand}), timeout=30)
            if kind == 'crash':
                items = cand
                n = max(n - 1, 2)
                reduced = True
                break
            if time.time() - t0 > budget_s:
                break
        if not reduced:
            if chunk == 1:
                break
            n = min(len(items), n * 2)
    return dict(case, **{key: items})


def _worker_died(t, exitcode):
    import importlib
    subname, shard = t[1], t[4]
    base = {'sub': subname, 'shard': shard}
    path = os.path.join(os.environ.get('VF_TMP', '/tmp'), 'current', f'{subname}.{shard}.json')
    try:
        with open(path) as f:
            case = json.loads(f.readline())
    except Exception:
        return dict(base, harness=f'worker process died (exit code {exitcode}) without a result and without a traced case')
    try:
        mod = importlib.import_module(t[0])
        sub = {s.name: s for s in mod.SUBCHECKS}[subname]
        kind, info = run_case_in_child(sub, case)
    except Exception as e:
        return dict(base, harness=f'worker process died (exit code {exitcode}); re-running its last case failed: {e}')
    if kind != 'crash':
        # not reproducible from the case alone: a harness problem (state leaking between cases, memory pressure), never a verdict
        return dict(base, harness=f'worker process died (exit code {exitcode}) but its last case runs to completion ({kind}) in a fresh child; case: {json.dumps(case, default=str)[:600]}')
    for fid, pred in sub.known.items():
        try:
            if pred(case):
                return dict(base, harness=f'worker died on a case that matches known finding {fid}, which should have been excluded by construction')
        except Exception:
            pass
    small = minimise_crash(sub, case)
    return dict(base, evals=1, nt=[], samples=[], labels={'interpreter_crash': 1}, excluded={}, wall=0.0, enum_total=0, enum_done=False, timed_out=False,
                fail={'case': dict(small, _crash=True) if isinstance(small, dict) else small, 'msg': info + f' (worker exit code {exitcode}); every later case of this shard was not run'})


def run_tasks(tasks, procs, task_timeout):
    import pickle
    ctx = multiprocessing.get_context('fork')
    outdir = os.path.join(os.environ.get('VF_TMP', '/tmp'), 'results')
    os.makedirs(outdir, exist_ok=True)
    pending = list(enumerate(tasks))
    running = {}
    results = []
    while pending or running:
        while pending and len(running) < procs:
            i, t = pending.pop(0)
            path = os.path.join(outdir, f'r{i}.pkl')
            p = ctx.Process(target=_child, args=(t, path), daemon=True)
            p.start()
            running[i] = (p, t, path, time.time())
        time.sleep(0.02)
        for i in list(running):
            p, t, path, t_start = running[i]
            if p.is_alive():
                if time.time() - t_start > task_timeout:
                    p.kill()
                    p.join(5)
                    results.append({'sub': t[1], 'shard': t[4], 'harness': f'task exceeded the hard timeout of {task_timeout:.0f}s and was killed'})
                    del running[i]
                continue
            p.join()
            if os.path.exists(path):
                with open(path, 'rb') as f:
                    results.append(pickle.load(f))
                os.unlink(path)
            else:
                results.append(_worker_died(t, p.exitcode))
            del running[i]
    return results


# ---------------------------------------------------------------------------------------------
# driver

def case_size(case):
    return len(json.dumps(case, default=str))


def run_property(prop_id, mod, tier, seed, only=None, jobs=None):
    import shutil
    import tempfile
    run_tmp = tempfile.mkdtemp(prefix='vf_run_')
    os.environ['VF_TMP'] = run_tmp
    try:
        return _run_property(prop_id, mod, tier, seed, only, jobs)
    finally:
        shutil.rmtree(run_tmp, ignore_errors=True)


def _run_property(prop_id, mod, tier, seed, only=None, jobs=None):
    t0 = time.time()
    bitstring_module()
    subs = [s for s in mod.SUBCHECKS if only is None or s.name in only or s.name.split('.', 1)[1] in only]
    findings = [f for f in load_findings() if f['property'] == prop_id]
    lines = []
    violations = []
    harness_errors = []

    # --- self-tests of the models (harness error when they fail)
    if hasattr(mod, 'selftest'):
        try:
            mod.selftest()
        except Exception as e:
            harness_errors.append('model self-test failed: ' + ''.join(traceback.format_exception(type(e), e, e.__traceback__))[-2000:])

    # --- replay witnesses of known / fixed findings
    submap = {s.name: s for s in mod.SUBCHECKS}
    known_report = []
    for f in findings:
        wpath = os.path.join(HERE, f['witness'])
        try:
            with open(wpath) as fh:
                w = json.load(fh)
            sub = submap[w['subcheck']]
        except Exception as e:
            harness_errors.append(f'cannot load witness {wpath}: {e}')
            continue
        ACTIVE_KNOWN.discard(f['id'])
        if f.get('isolate'):
            # the witness is known to crash the interpreter (e.g. a segfault in a C extension): replay it in a child process
            import subprocess
            try:
                r = subprocess.run([os.path.join(HERE, 'check'), prop_id, '--replay', wpath], capture_output=True, text=True, timeout=60,
                                   preexec_fn=lambda: __import__('resource').setrlimit(__import__('resource').RLIMIT_AS, (4 << 30, 4 << 30)))
                kind, info = ('fail', f'child exit code {r.returncode}') if r.returncode != 0 and r.returncode != 2 else (('harness', r.stderr[-300:]) if r.returncode == 2 else ('ok', {}))
            except subprocess.TimeoutExpired:
                kind, info = 'fail', 'the witness did not terminate within 60 s'
        else:
            kind, info = run_case(sub, w['case'])
        if f['status'] == 'known':
            ACTIVE_KNOWN.add(f['id'])
            if kind == 'fail':
                lines.append(f"KNOWN-FINDING: property={prop_id} {f['id']}: {f['what']}")
                known_report.append({'id': f['id'], 'still_fails': True})
            elif kind == 'harness':
                harness_errors.append(f"witness {f['id']}: {info}")
            else:
                known_report.append({'id': f['id'], 'still_fails': False})
        else:  # fixed: suppresses nothing
            if kind == 'fail':
                violations.append({'sub': w['subcheck'], 'case': w['case'], 'msg': f"regression of fixed finding {f['id']}: {info}"})
            elif kind == 'harness':
                harness_errors.append(f"witness {f['id']}: {info}")
            known_report.append({'id': f['id'], 'fixed_commit': f.get('commit'), 'still_fails': kind == 'fail'})

    # --- regression corpus (plain cases, replayed without hypothesis)
    corpus_dir = os.path.join(HERE, 'corpus', prop_id)
    corpus_n = 0
    if os.path.isdir(corpus_dir):
        for fn in sorted(os.listdir(corpus_dir)):
            if not fn.endswith('.json'):
                continue
            with open(os.path.join(corpus_dir, fn)) as fh:
                w = json.load(fh)
            if w['subcheck'] not in submap:
                continue
            kind, info = run_case(submap[w['subcheck']], w['case'])
            corpus_n += 1
            if kind == 'fail':
                violations.append({'sub': w['subcheck'], 'case': w['case'], 'msg': f'corpus {fn}: {info}'})
            elif kind == 'harness':
                harness_errors.append(f'corpus {fn}: {info}')

    nshards = jobs or (8 if tier == 'quick' else 16)
    budget = float(os.environ.get('VF_BUDGET_S', '0')) or (getattr(mod, 'BUDGET_S', {}).get(tier) if hasattr(mod, 'BUDGET_S') else None) or (150 if tier == 'quick' else 1500)
    tasks = []
    for s in subs:
        k = nshards
        if s.strategy is not None and s.examples.get(tier, 1) < 4 * nshards and s.enum is None:
            k = 1
        for sh in range(k):
            tasks.append((mod.__name__, s.name, tier, seed, sh, k, budget))
        if getattr(s, 'fuzz', False) and tier == 'thorough' and s.strategy is not None and os.path.isdir(os.path.join(HERE, '.deps', 'atheris')) and not os.environ.get('VF_NO_FUZZ'):
            tasks.append((mod.__name__, s.name, tier, seed, 'fuzz', 1, budget))
    # interleave so that long sub-checks start early
    procs = min(int(os.environ.get('VF_PROCS', '16')), max(1, len(tasks)))
    results = run_tasks(tasks, procs, task_timeout=max(4 * budget, 600))

    by_sub = {}
    for r in results:
        b = by_sub.setdefault(r['sub'], {'evaluations': 0, 'nt': set(), 'samples': [], 'labels': Counter(), 'excluded': Counter(),
                                         'fails': [], 'wall_s': 0.0, 'enum_total': 0, 'enum_done': True, 'timed_out': False})
        if r.get('harness'):
            harness_errors.append(f"{r['sub']} shard {r['shard']}: {r['harness']}")
            if 'evals' not in r:
                continue
        b['evaluations'] += r['evals']
        b['nt'].update(bytes(x) for x in r['nt'])
        if len(b['samples']) < 4:
            b['samples'].extend(r['samples'][:2])
        b['labels'].update(r['labels'])
        b['excluded'].update(r['excluded'])
        b['wall_s'] = max(b['wall_s'], r['wall'])
        b['enum_total'] = max(b['enum_total'], r['enum_total'])
        b['enum_done'] = b['enum_done'] and r['enum_done']
        b['timed_out'] = b['timed_out'] or r['timed_out']
        if r['fail']:
            b['fails'].append(r['fail'])

    os.makedirs(os.path.join(HERE, 'replays'), exist_ok=True)
    for name, b in by_sub.items():
        if b['fails']:
            best = min(b['fails'], key=lambda f: case_size(f['case']))
            violations.append({'sub': name, 'case': best['case'], 'msg': best['msg']})

    for i, v in enumerate(violations):
        path = os.path.join(HERE, 'replays', f"{v['sub']}.seed{seed}.{i}.json")
        with open(path, 'w') as fh:
            json.dump({'property': prop_id, 'subcheck': v['sub'], 'case': v['case'], 'message': v['msg'], 'seed': seed, 'tier': tier}, fh, indent=1, default=str)
        lines.append(f"VIOLATION property={prop_id} replay={path}")
        lines.append(f"  detail: {v['sub']}: {v['msg'][:600]}")

    # --- evidence
    all_nt = set()
    samples = []
    total = 0
    labels = {}
    excluded = Counter()
    subsum = {}
    for name in [s.name for s in subs]:
        b = by_sub.get(name)
        if not b:
            continue
        total += b['evaluations']
        all_nt.update((name.encode() + x) for x in b['nt'])
        for smp in b['samples'][:3]:
            samples.append({'subcheck': name, 'case': smp})
        excluded.update(b['excluded'])
        top = dict(sorted(b['labels'].items(), key=lambda kv: -kv[1])[:40])
        subsum[name] = {'evaluations': b['evaluations'], 'distinct_nontrivial': len(b['nt']), 'wall_s': round(b['wall_s'], 2),
                        'labels': top, 'excluded_known': dict(b['excluded']), 'violations': len(b['fails'])}
        if b['enum_total']:
            subsum[name]['enumerated_cases'] = b['enum_total']
            subsum[name]['enumeration_complete'] = b['enum_done']
            s = submap[name]
            if s.enum_exhaustive_note:
                subsum[name]['exhaustive_domain'] = s.enum_exhaustive_note
        if b['timed_out']:
            subsum[name]['stopped_by_wall_clock_budget'] = True
        if 'atheris_execs' in b['labels']:
            subsum[name]['atheris_campaign'] = {'execs': b['labels']['atheris_execs'], 'nontrivial': b['labels'].get('atheris_nontrivial', 0), 'driver': 'atheris.Fuzz over hypothesis fuzz_one_input (coverage-guided, supplementary)'}
    exhaustive_all = bool(subs) and all(s.strategy is None and s.enum is not None for s in subs) and all(
        by_sub.get(s.name, {}).get('enum_done', False) for s in subs)
    ev = {
        'property_id': prop_id, 'tier': tier, 'seed': seed, 'level': 'exploration',
        'coverage': {
            'evaluations': total,
            'distinct_nontrivial': len(all_nt),
            'rule': getattr(mod, 'RULE', ''),
            'samples': samples[:40],
            'exhaustive': exhaustive_all,
            'by_subcheck': subsum,
            'excluded_known': dict(excluded),
            'findings_replayed': known_report,
            'corpus_cases_replayed': corpus_n,
            'shards': nshards,
        },
        'assumptions': getattr(mod, 'ASSUMPTIONS', []),
        'wall_s': round(time.time() - t0, 2),
        'violations': len(violations),
    }
    # sensitivity runs against a scratch copy (VF_REPO set by tools/) must not overwrite the evidence of the real tree
    if only is None and not harness_errors and os.path.realpath(os.environ.get('VF_REPO', '/repo')) == '/repo':
        os.makedirs(os.path.join(HERE, 'evidence'), exist_ok=True)
        with open(os.path.join(HERE, 'evidence', prop_id + '.json'), 'w') as fh:
            json.dump(ev, fh, indent=1, default=str)
    return lines, violations, harness_errors, ev


def replay(prop_id, mod, path):
    import shutil
    import tempfile
    run_tmp = tempfile.mkdtemp(prefix='vf_run_')
    os.environ['VF_TMP'] = run_tmp
    try:
        return _replay(prop_id, mod, path)
    finally:
        shutil.rmtree(run_tmp, ignore_errors=True)


def _replay(prop_id, mod, path):
    bitstring_module()
    with open(path) as fh:
        w = json.load(fh)
    submap = {s.name: s for s in mod.SUBCHECKS}
    if w.get('subcheck') not in submap:
        print(f"HARNESS ERROR: replay file is for sub-check {w.get('subcheck')!r}, which {prop_id} does not have", file=sys.stderr)
        return 2
    sub = submap[w['subcheck']]
    ACTIVE_KNOWN.clear()
    if isinstance(w['case'], dict) and w['case'].get('_crash'):
        kind, info = run_case_in_child(sub, w['case'])
        if kind == 'crash':
            kind = 'fail'
    else:
        kind, info = run_case(sub, w['case'])
    if kind == 'fail':
        print(f'VIOLATION property={prop_id} replay={os.path.abspath(path)}')
        print(f'  detail: {sub.name}: {info[:2000]}')
        return 1
    if kind == 'harness':
        print('HARNESS ERROR: ' + info, file=sys.stderr)
        return 2
    print(f'replay ok: {sub.name} holds on this case')
    return 0
