"""File-backed construction routes (temp files live outside /repo and /verif and are removed with the case)."""
import io
import os
import shutil
import tempfile

from vf.common import cls_of, to_bytes
from vf.engine import HarnessError

FILE_ROUTES = ['file_name_full', 'file_handle_full', 'file_offset', 'file_offset_aligned', 'file_offset_nolen', 'file_length_limited',
               'file_length_limited_off0', 'file_handle_offset', 'file_len_whole', 'pathlib_name']

_ROOT = None


def _root():
    global _ROOT
    if _ROOT is None or not os.path.isdir(_ROOT):
        _ROOT = tempfile.mkdtemp(prefix='vf_files_%d_' % os.getpid(), dir=os.environ.get('VF_TMP', '/tmp'))
    return _ROOT


class TempDir:
    def __enter__(self):
        self.path = tempfile.mkdtemp(dir=_root())
        self.n = 0
        return self

    def new(self, data: bytes) -> str:
        # the same bytes give the same file within one case, so that two operands can share a source file
        if not hasattr(self, 'cache'):
            self.cache = {}
        if data in self.cache:
            return self.cache[data]
        self.n += 1
        p = os.path.join(self.path, f'f{self.n}.bin')
        with open(p, 'wb') as f:
            f.write(data)
        self.cache[data] = p
        return p

    def __exit__(self, *a):
        shutil.rmtree(self.path, ignore_errors=True)
        return False


def cleanup_root():
    global _ROOT
    if _ROOT and os.path.isdir(_ROOT):
        shutil.rmtree(_ROOT, ignore_errors=True)
    _ROOT = None


import atexit
atexit.register(cleanup_root)


def _pad(bits, fill='1'):
    return bits + fill * (-len(bits) % 8)


def build_file_route(clsname, bits, route, salt, tmp):
    """Builds an object of class clsname holding exactly `bits` from a real file."""
    c = cls_of(clsname)
    n = len(bits)
    junk_after = '10' * (salt % 5) + '1'
    if n == 0 and route in ('file_name_full', 'file_handle_full', 'pathlib_name', 'file_offset_nolen', 'file_len_whole'):
        route = 'file_length_limited'  # an empty file cannot be memory-mapped (OS limitation, outside the property)
    if route in ('file_name_full', 'file_handle_full', 'pathlib_name') and n % 8:
        route = 'file_length_limited'
    # every seventh salt puts the window a whole number of mmap pages (plus the usual small offset) into the file
    import mmap
    page = (8 * mmap.ALLOCATIONGRANULARITY * (1 + salt % 2)) if salt % 7 == 3 else 0
    if route == 'file_offset_nolen':
        off = (-n) % 8 + 8 * (salt % 3) + page
        p = tmp.new(to_bytes('1' * off + bits))
        return c(filename=p, offset=off) if off else c(filename=p)
    if route == 'file_name_full':
        return c(filename=tmp.new(to_bytes(bits)))
    if route == 'pathlib_name':
        import pathlib
        return c(filename=pathlib.Path(tmp.new(to_bytes(bits))))
    if route == 'file_handle_full':
        with open(tmp.new(to_bytes(bits)), 'rb') as fh:
            return c(fh)
    if route == 'file_len_whole':
        padded = _pad(bits)
        if len(padded) != n:
            route = 'file_length_limited'
        else:
            return c(filename=tmp.new(to_bytes(bits)), length=n)
    if route in ('file_length_limited', 'file_length_limited_off0'):
        p = tmp.new(to_bytes(_pad(bits + junk_after)))
        if route == 'file_length_limited_off0':
            return c(filename=p, length=n, offset=0)
        return c(filename=p, length=n)
    if route in ('file_offset', 'file_offset_aligned', 'file_handle_offset'):
        off = 1 + salt % 23 if route != 'file_offset_aligned' else 8 * (1 + salt % 4)
        if page:
            off = page + (off if salt % 2 else 0)     # exactly on a page boundary, or a little past it
        p = tmp.new(to_bytes(_pad('01' * off + bits + junk_after)[off:] if False else _pad(('01' * off)[:off] + bits + junk_after)))
        if route == 'file_handle_offset':
            with open(p, 'rb') as fh:
                return c(fh, offset=off, length=n)
        return c(filename=p, offset=off, length=n)
    raise HarnessError('unknown file route ' + route)
