"""C08 - behaviour depends only on bit content, not on where the bits came from.

Differential between construction routes: an object built through any route must behave exactly like its twin
cls(bin=content) under the same operation and the same option state (msb0 / lsb0)."""
import io
import math

from hypothesis import strategies as st

from vf.engine import Sub, require, bitstring_module, Violation
from vf.common import (bits_st, bits_of_len, cls_st, mk, attempt, is_raised, CLASSES, MUTABLE, STREAMS, cls_of, MEM_ROUTES, build_route, to_bytes, lenbucket)
from vf import files
from vf.props import c03

RULE = ("cases = (content, construction route [text, bytes+offset/length, iterable, bitarray (both endiannesses), array, BytesIO, slice/copy of a larger object, "
        "string-cache hit, files by name/handle/pathlib with offset in {None,0,unaligned,aligned} and length in {None, whole, shorter, non-multiple of 8}], class, "
        "one operation from the op table [every non-mutating method/operator/property; for mutable classes every C03 mutator], msb0|lsb0). Oracle: the twin "
        "cls(bin=content) under the same operation and mode. Non-trivial = route != plain text and the operation's result depends on the content; distinct = SHA-1.")
ASSUMPTIONS = ["repr() of a file-backed object legitimately shows filename= and is not compared (C19 checks it)", "an empty file cannot be memory mapped (OS limitation): empty content is built from a non-empty file with length=0"]

EXTRA_ROUTES = ['empty_plus_literal', 'literal_plus_empty', 'empty_plus_object', 'memoryview', 'bytearray_offset', 'array_B', 'mul_then_slice', 'read_from_stream', 'cut_piece', 'unpack_bits',
                'from_uint', 'pathlib_name']
ALL_ROUTES = MEM_ROUTES + files.FILE_ROUTES + EXTRA_ROUTES
POSITIONAL_ROUTES = {'slice_of_longer', 'mul_then_slice', 'read_from_stream', 'cut_piece', 'unpack_bits'}


def build_any(clsname, bits, route, salt, tmp):
    import bitarray
    bs = bitstring_module()
    c = cls_of(clsname)
    n = len(bits)
    if route in files.FILE_ROUTES:
        return files.build_file_route(clsname, bits, route, salt, tmp)
    if route in MEM_ROUTES:
        return build_route(clsname, bits, route, salt)
    if route == 'empty_plus_literal':
        return (c() + ('0b' + bits)) if n else c()
    if route == 'literal_plus_empty':
        return (('0b' + bits) + c()) if n else c()
    if route == 'empty_plus_object':
        return c() + bs.Bits('0b' + bits if n else '')
    if route == 'bitarray_little':
        return c(bitarray.bitarray(bits, endian='little'))
    if route == 'bitarray_little_kw':
        off = salt % 5
        return c(bitarray=bitarray.bitarray('1' * off + bits + '01', endian='little'), offset=off, length=n)
    if route == 'frozenbitarray':
        return c(bitarray.frozenbitarray(bits))
    if route in ('memoryview', 'array_B'):
        if n % 8:
            return c(bytes=to_bytes(bits + '0' * (-n % 8)), length=n)
        import array
        return c(memoryview(to_bytes(bits))) if route == 'memoryview' else c(array.array('B', to_bytes(bits)))
    if route == 'bytearray_offset':
        off = salt % 9
        p = '0' * off + bits
        p += '1' * (-len(p) % 8)
        return c(bytes=bytearray(to_bytes(p)), offset=off, length=n)
    if route == 'mul_then_slice':
        return (c(bin=bits) * 3)[n:2 * n]
    if route == 'read_from_stream':
        s = bs.ConstBitStream(bin='101' + bits + '0')
        s.pos = 3
        return c(s.read(n))
    if route == 'cut_piece':
        if n == 0:
            return c()
        return c(list(bs.Bits(bin=bits + bits[:1]).cut(n))[0])
    if route == 'unpack_bits':
        return c(bs.Bits(bin='1' + bits).unpack(f'pad:1, bits:{n}')[0])
    if route == 'from_uint':
        return c(uint=int(bits, 2), length=n) if n else c()
    raise AssertionError(route)


# ---------------------------------------------------------------------------------------------
# op table (non-mutating)

def norm(x, depth=0):
    """normalise a result to a comparable value"""
    bs = bitstring_module()
    if isinstance(x, bs.Bits):
        return ('bits', type(x).__name__, x.bin, getattr(x, 'pos', None))
    if isinstance(x, bs.Array):
        return ('array', str(x.dtype), x.data.bin)
    if isinstance(x, float) and math.isnan(x):
        return 'nan'
    if isinstance(x, (list, tuple)):
        return [norm(i, depth + 1) for i in x]
    if hasattr(x, '__next__') and depth < 3:
        return [norm(i, depth + 1) for i in x]
    if type(x).__name__ in ('bitarray', 'frozenbitarray'):
        return ('bitarray', type(x).__name__, x.to01(), x.readonly, x.endian() if callable(getattr(x, 'endian', None)) else str(getattr(x, 'endian', None)))
    if isinstance(x, (bytearray, memoryview)):
        return (type(x).__name__, bytes(x))
    if isinstance(x, (int, str, bytes, bool, float)) or x is None:
        return x
    return repr(x)


def op_table():
    bs = bitstring_module()
    P = lambda b: bs.Bits(bin=b)
    T = {
        'len': lambda o, a: len(o),
        'bool': lambda o, a: bool(o),
        'bin': lambda o, a: o.bin,
        'hex': lambda o, a: o.hex,
        'oct': lambda o, a: o.oct,
        'uint': lambda o, a: o.uint,
        'int': lambda o, a: o.int,
        'bytes': lambda o, a: o.bytes,
        'uintle': lambda o, a: o.uintle,
        'float': lambda o, a: o.float,
        'tobytes': lambda o, a: o.tobytes(),
        'bytes_builtin': lambda o, a: bytes(o),
        'str': lambda o, a: str(o),
        'hash': lambda o, a: hash(o) if type(o).__name__ in ('Bits', 'ConstBitStream') else None,
        'eq_twin': lambda o, a: (o == P(a['content']), P(a['content']) == o, o != P(a['content'])),
        'eq_other': lambda o, a: (o == P(a['pat']), o != P(a['pat'])),
        'eq_str': lambda o, a: o == ('0b' + a['content'] if a['content'] else ''),
        'count': lambda o, a: (o.count(1), o.count(0)),
        'find': lambda o, a: o.find(P(a['pat']), a['start'], a['end'], a['ba']),
        'rfind': lambda o, a: o.rfind(P(a['pat']), a['start'], a['end'], a['ba']),
        'findall': lambda o, a: list(o.findall(P(a['pat']), a['start'], a['end'], None, a['ba'])),
        'contains': lambda o, a: P(a['pat']) in o,
        'startswith': lambda o, a: o.startswith(P(a['pat']), a['start'], a['end']),
        'endswith': lambda o, a: o.endswith(P(a['pat']), a['start'], a['end']),
        'cut': lambda o, a: list(o.cut(max(1, a['k'] % 17), a['start'], a['end'])),
        'split': lambda o, a: list(o.split(P(a['pat']), a['start'], a['end'])),
        'getitem': lambda o, a: o[a['i']],
        'slice': lambda o, a: o[a['s0']:a['s1']:a['s2']],
        'iter': lambda o, a: list(o)[:64],
        'reversed': lambda o, a: list(reversed(o))[:64],
        'add': lambda o, a: o + P(a['pat']),
        'radd': lambda o, a: P(a['pat']) + o,
        'add_self': lambda o, a: o + o,
        'mul': lambda o, a: o * (a['k'] % 4),
        'invert': lambda o, a: ~o,
        'and': lambda o, a: o & P(a['same']),
        'or': lambda o, a: o | P(a['same']),
        'xor': lambda o, a: o ^ P(a['same']),
        'rand': lambda o, a: P(a['same']) & o,
        'lshift': lambda o, a: o << (a['k'] % (len(o) + 2)),
        'rshift': lambda o, a: o >> (a['k'] % (len(o) + 2)),
        'join': lambda o, a: o.join([P(a['pat']), P(a['pat']), o]),
        'join_into': lambda o, a: P(a['pat']).join([o, o]),
        'all': lambda o, a: (o.all(1), o.all(0), o.any(1), o.any(0)),
        'all_pos': lambda o, a: o.all(1, [a['i']]) if len(o) else None,
        'unpack_bin': lambda o, a: o.unpack('bin'),
        'unpack_mixed': lambda o, a: o.unpack('uint:3, bits'),
        'identity_ops': lambda o, a: _identity_ops(o, bs),
        'tobitarray': lambda o, a: o.tobitarray(),
        'tobitarray_use': lambda o, a: _use_bitarray(o),
        'copy': lambda o, a: o.copy(),
        'copycopy': lambda o, a: __import__('copy').copy(o),
        'to_Bits': lambda o, a: bs.Bits(o),
        'to_BitArray': lambda o, a: bs.BitArray(o),
        'to_BitStream': lambda o, a: bs.BitStream(o),
        'to_ConstBitStream': lambda o, a: bs.ConstBitStream(o),
        'kw_bits': lambda o, a: bs.BitArray(bits=o),
        'pack_bits': lambda o, a: bs.pack('bits, uint:4', o, 5),
        'array_from': lambda o, a: bs.Array('uint4', o),
        'dtype_parse': lambda o, a: bs.Dtype('bin').parse(o),
        'pp': lambda o, a: _pp(o, a),
        'tofile': lambda o, a: _tofile(o),
        'length_prop': lambda o, a: (o.len, o.length),
    }
    return T


def _identity_ops(o, bs):
    # operations whose result has the same bits as the operand: shortcuts that hand back (a view of) the operand's own storage live here
    n = len(o)
    out = []
    for f in (lambda: o << 0, lambda: o >> 0, lambda: o * 1, lambda: 1 * o, lambda: o + bs.Bits(), lambda: bs.Bits() + o, lambda: o[:], lambda: o[0:n], lambda: o & bs.Bits(bin='1' * n),
              lambda: o | bs.Bits(n), lambda: o ^ bs.Bits(n), lambda: ~~o, lambda: o.copy(), lambda: bs.Bits().join([o]), lambda: list(o.cut(max(n, 1)))[:1], lambda: o.__class__(o)):
        r = attempt(f)
        if is_raised(r):
            out.append(('exc', type(r.exc).__name__))
            continue
        if isinstance(r, list):
            r = r[0] if r else None
        if r is not None and isinstance(r, bs.BitArray):
            r.append('0b1')            # a mutable result belongs to the caller
            r.invert()
        out.append(norm(r))
    return out


def _use_bitarray(o):
    # the returned bitarray is the caller's: it can be edited like any other, and every call gives a new one
    b1 = o.tobitarray()
    b2 = o.tobitarray()
    same = b1 is b2
    b1.append(1)
    b1.invert()
    if len(b2):
        b2[0] = not b2[0]
    return (same, b1, b2, o.bin)


def _pp(o, a):
    s = io.StringIO()
    o.pp('bin, hex' if len(o) % 4 == 0 else 'bin', width=60 + a['k'] % 40, stream=s)
    return s.getvalue()


def _tofile(o):
    f = io.BytesIO()
    o.tofile(f)
    return f.getvalue()


STREAM_OPS = {
    'read_int': lambda o, a: (o.read(a['k'] % (len(o) + 2)), o.pos),
    'read_tok': lambda o, a: (o.read('uint:5'), o.pos),
    'readlist': lambda o, a: (o.readlist('bin:2, hex:4'), o.pos),
    'peek': lambda o, a: (o.peek(3), o.pos),
    'readto': lambda o, a: (o.readto(bitstring_module().Bits(bin=a['pat'])), o.pos),
    'setpos_read': lambda o, a: (_setpos(o, a['i']), o.read('bin'), o.pos),
    'bytealign': lambda o, a: (_setpos(o, a['i']), o.bytealign(), o.pos),
    'find_moves': lambda o, a: (o.find(bitstring_module().Bits(bin=a['pat'])), o.pos),
}


def _setpos(o, i):
    o.pos = i % (len(o) + 1)
    return o.pos


OP_NAMES = None
# operations that can hand back (part of) the operand's own storage
SHARING_OPS = ['identity_ops', 'tobitarray_use', 'copy', 'copycopy', 'to_Bits', 'to_BitArray', 'to_BitStream', 'to_ConstBitStream', 'kw_bits', 'slice', 'add', 'radd', 'lshift', 'rshift', 'mul',
               'pack_bits', 'array_from', 'join', 'join_into', 'and', 'invert', 'cut', 'tofile', 'bytes_builtin']


@st.composite
def case_st(draw, tier, routes=ALL_ROUTES, mutate=False):
    content = draw(bits_st(max_len=200 if tier == 'quick' else 1200, long=True))
    n = len(content)
    route = draw(st.sampled_from(routes))
    cls = draw(cls_st) if not mutate else draw(st.sampled_from(MUTABLE))
    args = {'content': content, 'pat': draw(bits_st(max_len=9, min_len=0)), 'same': draw(bits_of_len(n)), 'k': draw(st.integers(0, 1000)),
            'i': draw(st.integers(-n - 2, n + 2)), 's0': draw(st.one_of(st.none(), st.integers(-n - 2, n + 2))), 's1': draw(st.one_of(st.none(), st.integers(-n - 2, n + 2))),
            's2': draw(st.sampled_from([None, 1, 2, 3, -1, -2, 8])), 'start': draw(st.one_of(st.none(), st.integers(0, n))), 'end': draw(st.one_of(st.none(), st.integers(0, n))),
            'ba': draw(st.sampled_from([None, False, True]))}
    if n and draw(st.booleans()):
        k = draw(st.integers(0, n - 1))
        args['pat'] = content[k:k + draw(st.integers(1, 8))]
    runs = draw(st.integers(0, 7)) == 0
    if runs:
        # byte runs: whole-byte patterns with overlapping occurrences at byte boundaries
        alphabet = draw(st.lists(bits_of_len(8), min_size=1, max_size=1 if draw(st.booleans()) else 2))
        whole = route in ('file_name_full', 'file_handle_full', 'pathlib_name', 'file_len_whole', 'file_offset_nolen')
        content = ''.join(draw(st.lists(st.sampled_from(alphabet), min_size=1, max_size=40))) + ('' if whole and draw(st.integers(0, 3)) else draw(bits_st(max_len=7)))
        n = len(content)
        k = 8 * draw(st.integers(0, n // 8))
        args.update(content=content, same=draw(bits_of_len(n)), pat=content[k:k + 8 * draw(st.integers(1, 3))] or content[:8],
                    start=draw(st.sampled_from([None, None, 0, 8, 3])), end=draw(st.sampled_from([None, None, n, n - 8, n - 3])),
                    ba=draw(st.sampled_from([None, False, True, True])))
    if route in ('file_name_full', 'file_handle_full', 'pathlib_name', 'file_len_whole', 'file_offset_nolen') and not mutate and not runs:
        # whole files are the objects that stay memory mapped (immutable classes only): whole-byte contents, immutable classes and the
        # storage-sharing operations get extra weight here
        if draw(st.integers(0, 3)):
            nb = draw(st.integers(1, 12)) if draw(st.integers(0, 4)) else draw(st.sampled_from([125, 250, 251, 1024]))
            content = draw(bits_of_len(8 * nb))
            n = len(content)
            args.update(content=content, same=draw(bits_of_len(n)), i=draw(st.integers(-n - 2, n + 2)), start=draw(st.one_of(st.none(), st.integers(0, n))),
                        end=draw(st.one_of(st.none(), st.integers(0, n))), s0=draw(st.one_of(st.none(), st.integers(-n - 2, n + 2))), s1=draw(st.one_of(st.none(), st.integers(-n - 2, n + 2))))
        if draw(st.booleans()):
            cls = draw(st.sampled_from(['Bits', 'ConstBitStream']))
    case = {'cls': cls, 'route': route, 'salt': draw(st.integers(0, 60)), 'args': args, 'lsb0': draw(st.sampled_from([False, False, True]))}
    if mutate:
        case['mop'] = draw(c03.op_st(c03.ALL_OPS))
        case['op'] = 'mutate:' + case['mop']['op']
    else:
        names = sorted(op_table()) + (sorted(STREAM_OPS) * 2 if cls in STREAMS else [])
        case['op'] = draw(st.sampled_from(names))
        if draw(st.integers(0, 5)) == 0:
            case['op'] = draw(st.sampled_from(SHARING_OPS))
        if runs and draw(st.integers(0, 3)):
            case['op'] = draw(st.sampled_from(['findall', 'findall', 'findall', 'findall', 'find', 'rfind', 'split', 'contains', 'startswith', 'endswith'] + (['readto', 'find_moves'] if cls in STREAMS else [])))
    return case


@st.composite
def file_search_case(draw, tier):
    """memory-mapped (whole file, immutable class) objects holding byte runs, searched with whole-byte patterns cut from them"""
    alphabet = draw(st.lists(bits_of_len(8), min_size=1, max_size=2))
    content = ''.join(draw(st.lists(st.sampled_from(alphabet), min_size=2, max_size=30)))
    n = len(content)
    k = 8 * draw(st.integers(0, n // 8 - 1))
    pat = content[k:k + 8 * draw(st.integers(1, 3))]
    args = {'content': content, 'pat': pat, 'same': draw(bits_of_len(n)), 'k': draw(st.integers(0, 1000)), 'i': 0, 's0': None, 's1': None, 's2': None,
            'start': draw(st.sampled_from([None, None, 0, 8, 3, 16])), 'end': draw(st.sampled_from([None, None, n, n - 8, n - 3])), 'ba': draw(st.sampled_from([True, True, None, False]))}
    cls = draw(st.sampled_from(['Bits', 'ConstBitStream', 'Bits', 'ConstBitStream', 'BitArray']))
    op = draw(st.sampled_from(['findall', 'findall', 'find', 'rfind', 'split', 'contains', 'count', 'startswith', 'endswith', 'cut'] + (['readto', 'find_moves'] if cls == 'ConstBitStream' else [])))
    return {'cls': cls, 'route': draw(st.sampled_from(FILE_FULL + ['file_len_whole', 'file_offset_nolen'])), 'salt': draw(st.integers(0, 60)), 'args': args,
            'lsb0': draw(st.sampled_from([False, False, False, True])), 'op': op}


def apply_op(o, case):
    if case['op'].startswith('mutate:'):
        op = case['mop']
        before = o.bin
        r, objs = c03.resolve(op, before)
        res = attempt(c03.call_impl, o, op, r, objs)
        if is_raised(res) and isinstance(res.exc, Violation):
            raise res.exc
        return (res if not is_raised(res) else ('exc', type(res.exc).__name__), o.bin, getattr(o, 'pos', None))
    f = op_table().get(case['op']) or STREAM_OPS[case['op']]
    res = attempt(f, o, case['args'])
    if is_raised(res):
        return ('exc', type(res.exc).__name__)
    return norm(res)


def run(case):
    bs = bitstring_module()
    from vf.common import expand_bits
    if isinstance(case['args']['content'], dict):
        case = dict(case, args=dict(case['args'], content=expand_bits(case['args']['content'])))
        case['args']['same'] = '1' * len(case['args']['content'])
    content = case['args']['content']
    with files.TempDir() as tmp:
        # routes that select bits by position are built under msb0 (their lsb0 behaviour is C12's business); everything else is
        # built under the mode of the case, so that mode-dependent construction bugs show
        bs.options.lsb0 = case['lsb0'] and case['route'] not in POSITIONAL_ROUTES
        obj = build_any(case['cls'], content, case['route'], case['salt'], tmp)
        bs.options.lsb0 = case['lsb0']
        require(type(obj).__name__ == case['cls'], 'route returned another class', got=type(obj).__name__)
        require(obj.bin == content and len(obj) == len(content), 'object built through the route does not hold the intended bits', route=case['route'], got=obj.bin[:80], expected=content[:80],
                lsb0=case['lsb0'])
        twin = cls_of(case['cls'])(bin=content)
        r1 = apply_op(obj, case)
        r2 = apply_op(twin, case)
        if r1 != r2:      # (the details are only rendered when needed: str() of a megabit integer is slow)
            require(False, 'the same operation gives different results depending on how the bitstring was built', route=case['route'], op=case['op'], lsb0=case['lsb0'],
                    via_route=str(r1)[:160], plain=str(r2)[:160], n=len(content))
        if not case['op'].startswith('mutate:') and case['op'] not in STREAM_OPS:
            require(obj.bin == content, 'a non-mutating operation changed the object built through the route', op=case['op'], route=case['route'])
        if case['op'].startswith('mutate:'):
            # after the same mutation the two are still equal to each other, and equal to a second object from the same source exactly when the bits are
            require((obj == twin) is True and (twin == obj) is True and not (obj != twin), 'after the same mutation the object built through the route is not == its twin', route=case['route'], op=case['op'])
            bs.options.lsb0 = case['lsb0'] and case['route'] not in POSITIONAL_ROUTES
            again = build_any(case['cls'], content, case['route'], case['salt'], tmp)
            bs.options.lsb0 = case['lsb0']
            require(again.bin == content, 'a second object from the same source does not hold the content', route=case['route'])
            same = obj.bin == content
            require((obj == again) is same and (again == obj) is same and (obj != again) is (not same), '== between a mutated object and a fresh one from the same source disagrees with their bits',
                    route=case['route'], op=case['op'], bits_equal=same, eq=(obj == again))
        # a second object from the same source behaves the same (shared buffers / caches must not be consumed)
        if case['route'] in ('cache_hit', 'auto_bin', 'fromstring', 'empty_plus_literal', 'literal_plus_empty', 'empty_plus_object', 'hex_or_bin', 'join', 'pack_bits'):
            again = build_any(case['cls'], content, case['route'], case['salt'], tmp)
            require(again.bin == content, 'building again from the same literal gives different bits', route=case['route'])
            lit = bs.Bits('0b' + content) if content else bs.Bits()
            require(lit.bin == content, 'after the operation the same literal string parses to different bits (shared storage was modified)', route=case['route'], op=case['op'])
        del obj
    content_dep = case['op'] not in ('len', 'bool', 'length_prop')
    return {'nt': case['route'] != 'bin' and content_dep and len(content) > 0, 'labels': [case['route'], case['op'].split(':')[0], 'lsb0' if case['lsb0'] else 'msb0', lenbucket(len(content))]}


def sub(name, routes, quick, thorough, mutate=False):
    return Sub('C08.' + name, run, strategy=lambda tier: case_st(tier, routes, mutate), examples={'quick': quick, 'thorough': thorough}, ambient=('bytealigned',))


@st.composite
def big_case_st(draw, tier):
    from vf.common import big_bits_st
    c = draw(case_st(tier, files.FILE_ROUTES, False))
    c['args']['content'] = draw(big_bits_st())
    n = c['args']['content']['n']
    c['args']['i'] = draw(st.sampled_from([0, -1, n - 1, -n, n, -2, n // 2]))
    c['args']['start'], c['args']['end'] = None, None
    cheap = ['identity_ops', 'len', 'bool', 'tobytes', 'hash', 'eq_twin', 'count', 'getitem', 'add', 'radd', 'add_self', 'invert', 'and', 'xor', 'lshift', 'rshift', 'to_BitArray', 'to_BitStream', 'to_Bits',
             'copy', 'tofile', 'length_prop', 'uint', 'all', 'all_pos', 'startswith', 'endswith', 'find', 'rfind', 'contains', 'slice', 'mul', 'join_into', 'kw_bits', 'read_int', 'bytes_builtin']
    c['op'] = draw(st.sampled_from(cheap))
    if c['op'] == 'read_int' and c['cls'] not in STREAMS:
        c['op'] = 'len'
    c['args']['s2'] = draw(st.sampled_from([None, -1, 8, 4099]))
    return c


FILE_LIMITED = ['file_length_limited', 'file_length_limited_off0', 'file_len_whole']
FILE_OFFSET = ['file_offset', 'file_offset_aligned', 'file_offset_nolen', 'file_handle_offset']
FILE_FULL = ['file_name_full', 'file_handle_full', 'pathlib_name']

SUBCHECKS = [
    sub('memory_routes', MEM_ROUTES + EXTRA_ROUTES, 14000, 250000),
    sub('file_full', FILE_FULL, 7000, 90000),
    sub('file_offset', FILE_OFFSET, 5000, 80000),
    sub('file_length_limited', FILE_LIMITED, 6000, 100000),
    sub('mutable_from_route', ALL_ROUTES, 8000, 120000, mutate=True),
    Sub('C08.file_search', run, strategy=file_search_case, examples={'quick': 2500, 'thorough': 40000}, ambient=('bytealigned',)),
    Sub('C08.file_large', run, strategy=big_case_st, examples={'quick': 400, 'thorough': 6000}),
]
