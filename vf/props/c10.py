"""C10 - exponential-Golomb codes: exact codewords, self-delimiting streams."""
from hypothesis import strategies as st

from vf.engine import Sub, require, bitstring_module
from vf.common import cls_st, mk, attempt, is_raised, CLASSES, cls_of

RULE = ("encode_table / decoder_total are exhaustive enumerations (every integer in a window around 0 for each code; every bit string up "
        "to a length bound as decoder input); encode_in_history builds small values repeatedly through every route into objects that are then edited in place (non-trivial = an encode after an edit); the others are generated (values out to 2^200 biased to 2^k-2..2^k+1; sequences of 1..30 mixed "
        "codes with optional junk prefix and truncated tail). Non-trivial = |v| >= 2, or a decoder input of >= 3 bits that is not exactly one "
        "codeword, or a sequence of >= 2 codes; distinct = SHA-1 of the case.")
ASSUMPTIONS = ["reference encoders/decoders are written from the H.264 / Dirac tables in doc/exp-golomb.rst and self-tested against those tables",
               "InterpretError and CreationError are aliases of ValueError; ReadError is an IndexError subclass"]

KINDS = ['ue', 'se', 'uie', 'sie']
TRUNC = 'TRUNC'


# ------------------------------------------------------------------------------------------- reference model

def enc(kind, v):
    if kind == 'ue':
        b = bin(v + 1)[2:]
        return '0' * (len(b) - 1) + b
    if kind == 'se':
        return enc('ue', 2 * v - 1 if v > 0 else -2 * v)
    if kind == 'uie':
        b = bin(v + 1)[3:]
        return ''.join('0' + c for c in b) + '1'
    if kind == 'sie':
        if v == 0:
            return '1'
        return enc('uie', abs(v)) + ('1' if v < 0 else '0')
    raise AssertionError(kind)


def dec(kind, bits, pos=0):
    """-> (value, new_pos) or TRUNC."""
    n = len(bits)
    if kind in ('ue', 'se'):
        z = 0
        while pos + z < n and bits[pos + z] == '0':
            z += 1
        if pos + z >= n:
            return TRUNC
        end = pos + 2 * z + 1
        if end > n:
            return TRUNC
        k = (1 << z) - 1 + (int(bits[pos + z + 1:end], 2) if z else 0)
        if kind == 'ue':
            return k, end
        return ((k + 1) // 2 if k % 2 else -(k // 2)), end
    p = pos
    code = 1
    while True:
        if p >= n:
            return TRUNC
        if bits[p] == '1':
            p += 1
            break
        if p + 1 >= n:
            return TRUNC
        code = code * 2 + int(bits[p + 1])
        p += 2
    v = code - 1
    if kind == 'uie' or v == 0:
        return v, p
    if p >= n:
        return TRUNC
    return (-v if bits[p] == '1' else v), p + 1


UE_TABLE = ['1', '010', '011', '00100', '00101', '00110', '00111', '0001000', '0001001', '0001010', '0001011', '0001100']
SE_VALUES = [0, 1, -1, 2, -2, 3, -3, 4, -4, 5, -5, 6]
UIE_TABLE = ['1', '001', '011', '00001', '00011', '01001', '01011', '0000001', '0000011', '0001001']
SIE_TABLE = {0: '1', 1: '0010', -1: '0011', 2: '0110', -2: '0111', 3: '000010', -3: '000011', 4: '000110', -4: '000111', 5: '010010', -5: '010011'}


def selftest():
    for i, c in enumerate(UE_TABLE):
        assert enc('ue', i) == c and dec('ue', c) == (i, len(c))
        assert enc('se', SE_VALUES[i]) == c and dec('se', c) == (SE_VALUES[i], len(c))
    for i, c in enumerate(UIE_TABLE):
        assert enc('uie', i) == c and dec('uie', c) == (i, len(c))
    for v, c in SIE_TABLE.items():
        assert enc('sie', v) == c and dec('sie', c) == (v, len(c))
    assert enc('ue', 12) == '0001101'
    s = '001001101101101011000100100101'
    out, p = [], 0
    while p < len(s):
        v, p = dec('ue', s, p)
        out.append(v)
    assert out == [3, 0, 0, 2, 2, 1, 0, 0, 8, 4]
    assert dec('ue', '00') == TRUNC and dec('ue', '0010') == TRUNC and dec('sie', '001') == TRUNC and dec('uie', '0') == TRUNC


# ------------------------------------------------------------------------------------------- routes

CREATE_ROUTES = ['kw', 'token', 'token_colon', 'pack', 'pack_kw', 'dtype_build', 'setattr', 'auto_list']


def create(kind, v, route, clsname):
    bs = bitstring_module()
    c = cls_of(clsname)
    if route == 'kw':
        return c(**{kind: v})
    if route == 'token':
        return c(f'{kind}={v}')
    if route == 'token_colon':
        return c(f' {kind} = {v} '.replace(' = ', '=')) if True else None
    if route == 'pack':
        return c(bs.pack(kind, v))
    if route == 'pack_kw':
        return c(bs.pack(f'{kind}=x', x=v))
    if route == 'dtype_build':
        return c(bs.Dtype(kind).build(v))
    if route == 'setattr':
        a = bs.BitArray('0b1') if clsname != 'BitStream' else bs.BitStream('0b1')
        setattr(a, kind, v)
        return c(a)
    if route == 'auto_list':
        return c().join([f'{kind}={v}'])
    raise AssertionError(route)


def read_all_routes(kind, obj, bits, expected):
    """Every reading route must return `expected` for a bitstring that is exactly one codeword."""
    bs = bitstring_module()
    require(getattr(obj, kind) == expected, f'.{kind} property differs', got=getattr(obj, kind), expected=expected)
    require(bs.Dtype(kind).parse(obj) == expected, 'Dtype.parse differs')
    require(obj.unpack(kind) == [expected], 'unpack differs', got=obj.unpack(kind))
    s = bs.ConstBitStream(obj)
    require(s.peek(kind) == expected and s.pos == 0, 'peek differs or moved pos')
    require(s.read(kind) == expected and s.pos == len(bits), 'read differs or wrong pos', pos=s.pos)
    s.pos = 0
    require(s.readlist([kind]) == [expected] and s.pos == len(bits), 'readlist differs or wrong pos')


# ------------------------------------------------------------------------------------------- encode_table (exhaustive window)

def enum_window(tier):
    w = 2048 if tier == 'quick' else 40000
    for v in range(-w, w + 1):
        yield {'v': v}


def run_encode(case):
    v = case['v']
    nt = abs(v) >= 2
    for i, kind in enumerate(KINDS):
        if v < 0 and kind in ('ue', 'uie'):
            continue
        exp = enc(kind, v)
        clsname = CLASSES[(v + i) % 4]
        o = create(kind, v, 'kw', clsname)
        require(o.bin == exp, f'{kind} codeword differs from the table definition', v=v, got=o.bin, expected=exp)
        route = CREATE_ROUTES[(abs(v) + i) % len(CREATE_ROUTES)]
        o2 = create(kind, v, route, clsname)
        require(o2.bin == exp, f'{kind} via route {route} differs', v=v, got=o2.bin, expected=exp)
        require(getattr(o, kind) == v, f'{kind} does not decode back', v=v, got=getattr(o, kind))
    return {'nt': nt}


# ------------------------------------------------------------------------------------------- encoders in a history

EDITS = ['invert', 'append', 'clear', 'set1', 'reverse', 'iadd', 'none']


@st.composite
def history_case(draw, tier):
    """small values encoded again and again through every route into mutable objects that are then edited in place"""
    lo = draw(st.sampled_from([0, 0, 5, 30, 254, 1022]))
    steps = []
    for _ in range(draw(st.integers(2, 12))):
        kind = draw(st.sampled_from(KINDS))
        v = lo + draw(st.integers(0, 3))
        if kind in ('se', 'sie') and draw(st.booleans()):
            v = -v
        steps.append([kind, v, draw(st.sampled_from(DIRECT_ROUTES)), draw(st.sampled_from(['BitArray', 'BitStream', 'BitArray', 'Bits', 'ConstBitStream'])),
                      draw(st.sampled_from(EDITS))])
    return {'steps': steps}


DIRECT_ROUTES = ['kw', 'token', 'pack', 'pack_kw', 'dtype_build', 'setattr_direct', 'fromstring', 'join', 'array_item_data', 'append_token', 'kw']


def run_history(case):
    bs = bitstring_module()
    keep = []
    edited = False
    nt = False
    for kind, v, route, clsname, edit in case['steps']:
        c = cls_of(clsname)
        exp = enc(kind, v)
        if route == 'kw':
            o = c(**{kind: v})
        elif route == 'token':
            o = c(f'{kind}={v}')
        elif route == 'fromstring':
            o = c.fromstring(f'{kind}={v}')
        elif route == 'pack':
            o = bs.pack(kind, v)
        elif route == 'pack_kw':
            o = bs.pack(f'{kind}=x', x=v)
        elif route == 'dtype_build':
            o = bs.Dtype(kind).build(v)
        elif route == 'setattr_direct':
            o = (bs.BitStream if clsname in ('BitStream', 'ConstBitStream') else bs.BitArray)('0b101')
            setattr(o, kind, v)
        elif route == 'join':
            o = c().join([f'{kind}={v}'])
        elif route == 'append_token':
            o = bs.BitArray()
            o.append(f'{kind}={v}')
        else:
            o = bs.BitArray()
            o += bs.Bits(**{kind: v})
        require(o.bin == exp, f'{kind} codeword for {v} differs from the table definition after earlier results were edited in place' if edited else
                f'{kind} codeword for {v} differs from the table definition', route=route, cls=clsname, got=o.bin, expected=exp, steps=case['steps'][:12])
        require(getattr(o, kind) == v, 'codeword does not decode back to the value', kind=kind, v=v, got=getattr(o, kind))
        nt = nt or edited
        if isinstance(o, bs.BitArray) and edit != 'none':
            if edit == 'invert':
                o.invert()
            elif edit == 'append':
                o.append('0b1')
            elif edit == 'clear':
                o.clear()
            elif edit == 'set1':
                o.set(1)
            elif edit == 'reverse':
                o.reverse()
            elif edit == 'iadd':
                o += '0b0110'
            edited = True
        keep.append(o)
    return {'nt': nt, 'labels': sorted({s[2] for s in case['steps']})}


# ------------------------------------------------------------------------------------------- big values

@st.composite
def big_case(draw, tier):
    k = draw(st.integers(1, 200))
    v = draw(st.one_of(st.integers(-3, 2).map(lambda d: (1 << k) + d), st.integers(0, 1 << 200), st.integers(0, 1 << 70)))
    if draw(st.booleans()):
        v = -v
    return {'v': v, 'kind': draw(st.sampled_from(KINDS)), 'route': draw(st.sampled_from(CREATE_ROUTES)), 'cls': draw(cls_st),
            'opt_ba': draw(st.sampled_from([False, False, True]))}


def run_big(case):
    v, kind = case['v'], case['kind']
    bitstring_module().options.bytealigned = case.get('opt_ba', False)
    if v < 0 and kind in ('ue', 'uie'):
        res = attempt(create, kind, v, case['route'], case['cls'])
        require(is_raised(res, ValueError), f'negative value for {kind} must raise CreationError', got=res, v=v, route=case['route'])
        return {'nt': True, 'labels': ['reject', kind, case['route']]}
    exp = enc(kind, v)
    o = create(kind, v, case['route'], case['cls'])
    require(o.bin == exp and len(o) == len(exp), f'{kind} codeword differs', v=v, got=o.bin[:90], expected=exp[:90], route=case['route'])
    read_all_routes(kind, o, exp, v)
    return {'nt': abs(v) >= 2, 'labels': [kind, case['route'], 'bits=%d' % (len(exp) // 50 * 50)]}


# ------------------------------------------------------------------------------------------- decoder_total

def enum_strings(tier):
    maxlen = 11 if tier == 'quick' else 16
    for n in range(0, maxlen + 1):
        for v in range(1 << n):
            yield {'bits': format(v, f'0{n}b') if n else ''}


def check_decode(bits, kind, clsname, prefix=''):
    bs = bitstring_module()
    whole = prefix + bits
    r = dec(kind, whole, len(prefix))
    # whole-bitstring property: exactly one code
    if not prefix:
        o = mk(clsname, bits)
        got = attempt(lambda: getattr(o, kind))
        if r != TRUNC and r[1] == len(bits):
            require(got == r[0] and not is_raised(got), f'.{kind} of a single codeword differs', bits=bits, got=got, expected=r[0])
        else:
            require(is_raised(got, ValueError), f'.{kind} must raise InterpretError unless the bitstring is exactly one codeword',
                    bits=bits, got=got, model=r)
            require(not is_raised(got, bs.ReadError), f'.{kind} must raise InterpretError, not ReadError', bits=bits, got=got)
        # Dtype.parse interprets the whole bitstring too: one codeword exactly
        for arg in (o, ('0b' + bits) if bits else None):
            if arg is None:
                continue
            gp = attempt(bs.Dtype(kind).parse, arg)
            if r != TRUNC and r[1] == len(bits):
                require(not is_raised(gp) and gp == r[0], f"Dtype('{kind}').parse of a single codeword differs", bits=bits, got=gp, expected=r[0])
            else:
                require(is_raised(gp, ValueError), f"Dtype('{kind}').parse must not accept anything but exactly one codeword", bits=bits, got=gp, model=r)
    s = cls_of('ConstBitStream' if clsname in ('Bits', 'ConstBitStream') else 'BitStream')(bin=whole, pos=len(prefix))
    for how in ('peek', 'read', 'readlist'):
        s.pos = len(prefix)
        if how == 'readlist':
            got = attempt(s.readlist, [kind])
            if not is_raised(got):
                got = got[0]
        else:
            got = attempt(getattr(s, how), kind)
        if r == TRUNC:
            require(is_raised(got, bs.ReadError), f'{how}({kind!r}) on a truncated code must raise ReadError', bits=whole, pos=len(prefix), got=got)
            require(s.pos == len(prefix), f'{how} on a truncated code moved pos', pos=s.pos)
        else:
            require(not is_raised(got) and got == r[0], f'{how}({kind!r}) differs from the reference decoder', bits=whole, got=got, expected=r)
            require(s.pos == (len(prefix) if how == 'peek' else r[1]), f'{how} left pos at the wrong place', pos=s.pos, expected=r[1], bits=whole)
    un = attempt(mk(clsname, bits).unpack, kind)
    if r == TRUNC or prefix:
        if not prefix:
            require(is_raised(un, bs.ReadError), 'unpack of a truncated code must raise ReadError', bits=bits, got=un)
    else:
        require(un == [r[0]], 'unpack differs from the reference decoder', bits=bits, got=un)
    return r


def run_decoder(case):
    bits = case['bits']
    nt = False
    for opt in (False, True):
        bitstring_module().options.bytealigned = opt   # the ambient search default must not influence decoding
        for i, kind in enumerate(KINDS):
            r = check_decode(bits, kind, CLASSES[(len(bits) + i) % 4])
            if len(bits) >= 3 and (r == TRUNC or r[1] != len(bits)):
                nt = True
    return {'nt': nt}


@st.composite
def long_decoder_case(draw, tier):
    z = draw(st.integers(0, 120))
    kind = draw(st.sampled_from(KINDS))
    shape = draw(st.integers(0, 4))
    if shape == 0:
        bits = '0' * z
    elif shape == 1:
        bits = '0' * z + '1' + draw(st.text('01', max_size=z))
    elif shape == 2:
        v = draw(st.integers(0, 1 << 100))
        c = enc(kind, v if kind in ('ue', 'uie') or draw(st.booleans()) else -v)
        bits = c[:draw(st.integers(0, len(c)))]
    elif shape == 3:
        v = draw(st.integers(0, 1 << 100))
        bits = enc(kind, v) + draw(st.text('01', max_size=5))
    else:
        bits = draw(st.text('01', max_size=60))
    return {'bits': bits, 'kind': kind, 'cls': draw(cls_st), 'prefix': draw(st.text('01', max_size=9)) if draw(st.booleans()) else '',
            'opt_ba': draw(st.sampled_from([False, False, True]))}


def run_long_decoder(case):
    bitstring_module().options.bytealigned = case.get('opt_ba', False)
    r = check_decode(case['bits'], case['kind'], case['cls'], case['prefix'])
    return {'nt': len(case['bits']) >= 3 and (r == TRUNC or r[1] != len(case['prefix'] + case['bits'])), 'labels': [case['kind'], 'trunc' if r == TRUNC else 'ok']}


# ------------------------------------------------------------------------------------------- sequences

@st.composite
def seq_case(draw, tier):
    n = draw(st.integers(1, 30))
    items = []
    for _ in range(n):
        kind = draw(st.sampled_from(KINDS))
        v = draw(st.one_of(st.integers(0, 12), st.integers(0, 5000), st.integers(0, 1 << 40)))
        if kind in ('se', 'sie') and draw(st.booleans()):
            v = -v
        items.append([kind, v])
    return {'items': items, 'prefix': draw(st.text('01', max_size=10)), 'cut': draw(st.integers(0, 6)) if draw(st.integers(0, 2)) == 0 else 0,
            'cls': draw(st.sampled_from(['ConstBitStream', 'BitStream'])), 'mode': draw(st.sampled_from(['read', 'readlist', 'unpack', 'readlist_str', 'mixed', 'dtype_objects', 'read_dtype_objects', 'peek_edit_read', 'peek_edit_read', 'kw_names'])),
            'opt_ba': draw(st.sampled_from([False, False, True]))}


def run_seq(case):
    bs = bitstring_module()
    bs.options.bytealigned = case.get('opt_ba', False)
    items = case['items']
    codes = [enc(k, v) for k, v in items]
    body = ''.join(codes)
    cut = min(case['cut'], len(codes[-1]))
    # cutting bits off the last code: it is truncated iff the reference decoder says so
    data = case['prefix'] + (body[:len(body) - cut] if cut else body)
    p0 = len(case['prefix'])
    # expected per-item results
    exp = []
    p = p0
    for k, v in items:
        r = dec(k, data, p)
        exp.append(r)
        if r == TRUNC:
            break
        p = r[1]
    if not cut:
        require([e[0] for e in exp] == [v for _, v in items] and p == len(data), 'HARNESS: model does not round-trip')
    s = cls_of(case['cls'])(bin=data, pos=p0)
    mode = case['mode']
    kinds = [k for k, _ in items]
    if mode in ('read', 'mixed'):
        pos = p0
        for i, (k, _) in enumerate(items):
            r = exp[i] if i < len(exp) else TRUNC
            if mode == 'mixed' and i % 2:
                pk = attempt(s.peek, k)
                require(s.pos == pos, 'peek moved pos')
                if r != TRUNC:
                    require(pk == r[0], 'peek differs', got=pk, expected=r[0])
            got = attempt(s.read, k)
            if r == TRUNC:
                require(is_raised(got, bs.ReadError), 'read of a truncated code must raise ReadError', got=got, i=i)
                require(s.pos == pos, 'failed read moved pos', pos=s.pos, expected=pos)
                break
            require(got == r[0], 'read in a sequence differs', i=i, got=got, expected=r[0])
            require(s.pos == r[1], 'pos did not advance by exactly one codeword', i=i, pos=s.pos, expected=r[1])
            pos = r[1]
    elif mode == 'peek_edit_read':
        # peek a code, change the data under the position in place (every kind of mutator), read: the read decodes what is there now
        if case['cls'] == 'BitStream' and not any(e == TRUNC for e in exp):
            pos = p0
            cur = data
            for i, (k, _) in enumerate(items[:8]):
                r = dec(k, cur, pos)
                if r == TRUNC:
                    break
                pk = attempt(s.peek, k)
                require(not is_raised(pk) and pk == r[0] and s.pos == pos, 'peek differs or moved pos', got=pk, expected=r[0])
                how = ['invert_bit', 'set_bit', 'setitem', 'overwrite', 'invert_all', 'reverse_tail', 'none', 'ixor'][(i + len(data)) % 8]
                j = pos + (i % max(r[1] - pos, 1))
                if how == 'invert_bit':
                    s.invert(j)
                elif how == 'set_bit':
                    s.set(cur[j] == '0', j)
                elif how == 'setitem':
                    s[j] = cur[j] == '0'
                    s.pos = pos
                elif how == 'overwrite':
                    s.overwrite('0b1' if cur[j] == '0' else '0b0', j)
                    s.pos = pos
                elif how == 'invert_all':
                    s.invert()
                elif how == 'reverse_tail':
                    s.reverse(pos, len(cur))
                elif how == 'ixor':
                    s ^= bs.Bits(bin='0' * j + '1' + '0' * (len(cur) - j - 1))
                cur = s.bin
                require(s.pos == pos, 'an in-place edit that keeps the length moved pos', how=how, pos=s.pos, expected=pos)
                r2 = dec(k, cur, pos)
                got = attempt(s.read, k)
                if r2 == TRUNC:
                    require(is_raised(got, bs.ReadError) and s.pos == pos, 'read of a (now) truncated code must raise ReadError and keep pos', got=got, how=how)
                    break
                require(not is_raised(got) and got == r2[0] and s.pos == r2[1], 'read after peek + in-place edit does not decode the current bits', how=how, got=got, expected=r2[0], pos=s.pos,
                        expected_pos=r2[1], kind=k)
                pos = r2[1]
    elif mode == 'read_dtype_objects':
        # read(Dtype object), alternating a scaled and the plain dtype of the same code: the scale multiplies the value, never the position
        pos = p0
        for i, (k, _) in enumerate(items):
            r = exp[i] if i < len(exp) else TRUNC
            sc = [None, 4, None, 0.5][i % 4]
            d = bs.Dtype(k, scale=sc) if sc is not None else bs.Dtype(k)
            got = attempt(s.read, d)
            if r == TRUNC:
                require(is_raised(got, bs.ReadError), 'read(Dtype) of a truncated code must raise ReadError', got=got, i=i)
                require(s.pos == pos, 'failed read moved pos', pos=s.pos, expected=pos)
                break
            want = r[0] if sc is None else r[0] * sc
            require(not is_raised(got) and got == want, 'read(Dtype object) in a sequence differs', i=i, got=got, expected=want, scale=sc)
            require(s.pos == r[1], 'pos did not advance by exactly one codeword', i=i, pos=s.pos, expected=r[1])
            pos = r[1]
    elif mode == 'kw_names' and not any(e == TRUNC for e in exp):
        # a keyword whose name looks like the tail of a code name ('e', 'ie', 'se' ...) next to the codes: the codes are still the codes
        for kwname in ('e', 'ie', 'se', 'n', 'ue', 'i'):
            extra = format((len(data) * 37 + 5) % 256, '08b')
            src = bs.ConstBitStream(bin=data[p0:] + extra)
            fmt2 = ', '.join(kinds) + f', uint:{kwname}'
            want = [e[0] for e in exp] + [int(extra, 2)]
            for how in ('unpack', 'readlist', 'peeklist'):
                src.pos = 0
                got = attempt(getattr(src, how), fmt2, **{kwname: 8})
                require(not is_raised(got) and got == want, f'{how} with a keyword length named {kwname!r} next to exp-Golomb tokens differs from the sequence', got=got if is_raised(got) else got[:8],
                        expected=want[:8], fmt=fmt2)
    elif mode == 'dtype_objects' and any(e == TRUNC for e in exp):
        # a list of Dtype objects over a sequence whose last code is cut: ReadError, and the position stays where it was
        ds = [bs.Dtype(k) for k in kinds]
        for how in ('readlist', 'peeklist'):
            s.pos = p0
            got = attempt(getattr(s, how), ds)
            require(is_raised(got, bs.ReadError), f'{how}(list of Dtype objects) over a truncated sequence must raise ReadError', got=got)
            require(s.pos == p0, f'failed {how}(list of Dtype objects) moved pos', pos=s.pos, expected=p0)
    elif mode == 'dtype_objects' and not any(e == TRUNC for e in exp):
        # lists of Dtype objects: first every code scaled by 4, then the plain dtypes, then scaled by 0.5 - each call stands for itself
        for sc in (4, None, 0.5, None):
            ds = [bs.Dtype(k, scale=sc) if sc is not None else bs.Dtype(k) for k in kinds]
            for how in ('unpack', 'readlist', 'peeklist'):
                s.pos = p0
                got = attempt(bs.Bits(bin=data[p0:]).unpack, ds) if how == 'unpack' else attempt(getattr(s, how), ds)
                want = [e[0] if sc is None else e[0] * sc for e in exp]
                require(not is_raised(got) and got == want, f'{how}(list of Dtype objects) differs from the sequence', got=got if is_raised(got) else got[:8], expected=want[:8], scale=sc)
    else:
        if mode == 'readlist' or mode == 'dtype_objects':
            fmt = kinds
            call = lambda: s.readlist(fmt)
        elif mode == 'readlist_str':
            # group equal neighbours with factors
            parts = []
            for k in kinds:
                if parts and parts[-1][0] == k:
                    parts[-1][1] += 1
                else:
                    parts.append([k, 1])
            fmt = ', '.join(f'{c}*{k}' if c > 1 else k for k, c in parts)
            call = lambda: s.readlist(fmt)
        else:
            fmt = ','.join(kinds)
            sl = bs.Bits(bin=data[p0:])
            call = lambda: sl.unpack(fmt)
        got = attempt(call)
        if any(e == TRUNC for e in exp):
            require(is_raised(got, bs.ReadError), f'{mode} over a truncated sequence must raise ReadError', got=got)
            require(s.pos == p0, 'failed readlist moved pos')
        else:
            require(got == [e[0] for e in exp], f'{mode} differs from the sequence', got=got, expected=[e[0] for e in exp])
            if mode != 'unpack':
                require(s.pos == exp[-1][1], 'readlist left pos at the wrong place', pos=s.pos, expected=exp[-1][1])
    return {'nt': len(items) >= 2, 'labels': [mode, 'cut' if cut else 'whole', case['cls']]}


# ------------------------------------------------------------------------------------------- negatives for unsigned codes

@st.composite
def neg_case(draw, tier):
    return {'v': -draw(st.one_of(st.integers(1, 10), st.integers(1, 1 << 70))), 'kind': draw(st.sampled_from(['ue', 'uie'])),
            'route': draw(st.sampled_from(CREATE_ROUTES)), 'cls': draw(cls_st)}


def run_neg(case):
    bs = bitstring_module()
    res = attempt(create, case['kind'], case['v'], case['route'], case['cls'])
    require(is_raised(res, ValueError), 'negative value for an unsigned code must raise CreationError', got=res, case=case)
    if case['route'] == 'setattr':
        a = bs.BitArray('0b101')
        r = attempt(setattr, a, case['kind'], case['v'])
        require(is_raised(r, ValueError) and a.bin == '101', 'rejected assignment changed the object', got=a.bin)
    return {'nt': True, 'labels': [case['kind'], case['route']]}


SUBCHECKS = [
    Sub('C10.encode_table', run_encode, enum=enum_window,
        enum_exhaustive_note='every integer in [-2048, 2048] (quick) / [-40000, 40000] (thorough) x ue/se/uie/sie (non-negative for ue/uie), keyword route plus one rotating other route'),
    Sub('C10.encode_in_history', run_history, strategy=history_case, examples={'quick': 3000, 'thorough': 40000}),
    Sub('C10.roundtrip_big', run_big, strategy=big_case, examples={'quick': 4000, 'thorough': 60000}),
    Sub('C10.decoder_total', run_decoder, enum=enum_strings,
        enum_exhaustive_note='every bit string of length <= 11 (quick) / <= 16 (thorough) as decoder input for all four codes, via property, peek, read, readlist, unpack'),
    Sub('C10.decoder_long', run_long_decoder, strategy=long_decoder_case, examples={'quick': 4000, 'thorough': 60000}),
    Sub('C10.stream_sequence', run_seq, strategy=seq_case, examples={'quick': 4000, 'thorough': 60000}),
    Sub('C10.reject_negative', run_neg, strategy=neg_case, examples={'quick': 800, 'thorough': 8000}),
]
