"""C04 - value isolation: immutable objects never change, mutable ones never share state.

History-based: a case is a list of steps interpreted over a pool of live objects; after every step every pool object
other than the one deliberately mutated must still equal its recorded shadow value."""
import array
import copy
import io
import operator

from hypothesis import strategies as st

from vf.engine import Sub, require, bitstring_module, Violation
from vf.common import (bits_st, cls_st, mk, attempt, is_raised, CLASSES, IMMUTABLE, MUTABLE, STREAMS, to_bytes, cls_of)

RULE = ("a case is a history: create (class x content x route incl. external bytearray/memoryview/array/bitarray/BytesIO sources kept alive), "
        "derive (constructor of each class, bits= keyword, .bits setter/getter, copy, slices, operators, join, fromstring, repeated literal "
        "strings (cache hits), pack, Dtype.build/parse, read, cut/split items, Array construction/slice/copy, tobitarray), mutate (every "
        "BitArray/BitStream mutator, edits of external sources and of bitarrays from tobitarray, Array edits) and poke (mutator names, "
        "augmented assignments and property setters on immutable objects). Invariant after every step: every other pool object still has "
        "its shadow bin/len (immutables also their hash). Non-trivial = history with a mutation that changed >= 1 bit while >= 1 other live "
        "object was derived from / source of the mutated one; distinct = SHA-1 of the step list.")
ASSUMPTIONS = ["Array.data is documented as freely modifiable shared state and is not treated as a derivation route",
               "files are not mutated (not listed as sources in the statement)"]

MUTATORS = ['invert_all', 'invert_one', 'set_all', 'set_one', 'append', 'prepend', 'insert', 'overwrite', 'del_slice', 'setitem', 'setslice',
            'replace', 'reverse', 'rol', 'ror', 'byteswap', 'ilshift', 'irshift', 'imul', 'iand', 'ior', 'ixor', 'clear', 'iadd', 'prop_uint',
            'prop_bin', 'prop_hex', 'prop_bits', 'prop_bytes', 'ilshift_all', 'irshift_all', 'iand_zeros', 'ior_ones', 'imul_one', 'set_all_then_invert', 'setslice_all', 'setslice_all',
            'setslice_tail', 'setslice_all_literal', 'prop_named_len', 'prop_named_len']
DERIVES = ['ctor_Bits', 'ctor_BitArray', 'ctor_ConstBitStream', 'ctor_BitStream', 'kw_bits', 'set_bits_prop', 'get_bits_prop', 'copycopy',
           'copy_method', 'slice_all', 'slice_part', 'slice_step', 'add', 'radd_str', 'mul', 'invert', 'and_self', 'or', 'xor', 'lshift', 'rshift',
           'join', 'join_empty', 'fromstring', 'literal', 'literal_other_cls', 'pack_bits', 'pack_kw', 'pack_token_kw', 'dtype_build', 'dtype_parse',
           'read', 'readlist', 'cut', 'split', 'array_from', 'tobitarray', 'tobitarray_roundtrip', 'unpack_bits', 'deepcopy', 'auto_from_bitarray',
           'and_same', 'add_empty_left', 'add_empty_right', 'add_empty_left_literal', 'mul_one', 'lshift0', 'rshift0', 'and_ones', 'cut_whole',
           'split_nomatch', 'radd_empty_str', 'join_single_self_empty', 'array_trailing_only', 'empty_append', 'empty_prepend', 'empty_iadd', 'empty_insert', 'empty_setslice',
           'empty_overwrite0', 'whole_setslice', 'cleared_append', 'cleared_prepend', 'empty_replace_all', 'empty_imul_then_append', 'empty_append_literal', 'empty_prepend_literal']
ARRAY_DERIVES = ['arr_slice', 'arr_copy', 'arr_from_arr', 'arr_slice_step', 'arr_astype', 'arr_data_copy', 'arr_extend_into_new']
SOURCE_KINDS = ['bytearray', 'memoryview', 'array', 'bitarray', 'bytesio', 'list', 'memoryview_ro', 'memoryview_slice', 'memoryview_kw', 'memoryview_cast',
                'array_H', 'bitarray_frozen_src', 'bitarray_buffer', 'bytearray_kw_window']
POKES = ['append', 'prepend', 'insert', 'overwrite', 'invert', 'set', 'reverse', 'rol', 'ror', 'byteswap', 'replace', 'clear', '__setitem__', '__delitem__',
         '__iadd__', '__imul__', '__ilshift__', '__irshift__', '__iand__', '__ior__', '__ixor__', 'op_iadd', 'op_imul', 'op_iand', 'op_ior', 'op_ixor',
         'op_ilshift', 'op_irshift', 'setattr_uint', 'setattr_bin', 'setattr_hex', 'setattr_bits', 'setattr_bytes', 'setattr_int', 'delitem_stmt', 'setitem_stmt',
         'all_callables']

# (dtype name, length or None, value): values chosen to hit special-case returns of the encoders (saturation, zero, specials)
_F = [0.0, -0.0, 1.0, -1.5, 1e9, -1e9, 1e-30, float('inf'), float('-inf'), 100.0, -100.0, 0.5, 448.0, 57344.0, 6.0, 7.5, 28.0, 2.0 ** 127, 2.0 ** -127]
RECIPES = ([(nm, None, v) for nm in ('mxint', 'e4m3mxfp', 'e5m2mxfp', 'e2m1mxfp', 'e2m3mxfp', 'e3m2mxfp', 'e8m0mxfp', 'p4binary', 'p3binary') for v in _F]
           + [('float', n, v) for n in (16, 32, 64) for v in _F[:9]] + [('floatle', n, v) for n in (16, 32, 64) for v in _F[:5]]
           + [('bfloat', None, v) for v in _F[:9] + [1e40, -1e40]] + [('bfloatle', None, v) for v in _F[:5]]
           + [('uint', n, v) for n, v in ((1, 0), (1, 1), (2, 0), (8, 0), (8, 255), (8, 1), (16, 0), (64, 2 ** 64 - 1), (64, 0))]
           + [('int', n, v) for n, v in ((1, 0), (1, -1), (8, 0), (8, -1), (8, -128), (8, 127), (64, -1))]
           + [('uintle', 16, 0), ('uintle', 16, 1), ('intbe', 16, -1), ('uintne', 16, 0), ('intle', 8, -1)]
           + [(nm, None, v) for nm in ('ue', 'uie') for v in (0, 1, 2, 3, 255)] + [(nm, None, v) for nm in ('se', 'sie') for v in (0, 1, -1, 2, -2, 127)]
           + [('bool', None, True), ('bool', None, False)]
           + [('hex', None, v) for v in ('', '0', 'f', '00', 'ff', 'a5a5')] + [('oct', None, v) for v in ('', '0', '7', '00')]
           + [('bin', None, v) for v in ('', '0', '1', '00', '11', '01111111', '10000000')]
           + [('bytes', None, v) for v in (b'', b'\x00', b'\xff', b'\x7f', b'\x80')]
           + [('zeros', None, v) for v in (0, 1, 7, 8, 9, 64)])
KW_VIAS = ['ctor', 'setter', 'setter_named_len', 'pack', 'token', 'fromstring_token', 'dtype_build', 'ctor_named_len', 'array_item']


class Entry:
    __slots__ = ('obj', 'kind', 'shadow', 'hash', 'cls', 'extra')

    def __init__(self, obj, kind, cls=None):
        self.obj = obj
        self.kind = kind      # 'bs' bitstring, 'arr' Array, 'src' external source, 'ba' bitarray from tobitarray
        self.cls = cls
        self.shadow = None
        self.hash = None
        self.extra = None


class World:
    def __init__(self):
        self.bs = bitstring_module()
        self.pool = []
        self.related_mutation = False
        self.log = []
        self.recipe_first = {}

    # ------------------------------------------------------------------ bookkeeping
    def value(self, e):
        if e.kind == 'bs':
            return e.obj.bin
        if e.kind == 'arr':
            return e.obj.data.bin
        return None

    def add(self, obj, kind, cls=None):
        e = Entry(obj, kind, cls or type(obj).__name__)
        e.shadow = self.value(e)
        if kind == 'bs' and e.cls in IMMUTABLE:
            e.hash = hash(obj)
        self.pool.append(e)
        return e

    def refresh(self, e):
        e.shadow = self.value(e)

    def check_all(self, except_idx=None, what=''):
        for i, e in enumerate(self.pool):
            if i == except_idx or e.kind in ('src', 'ba'):
                continue
            v = self.value(e)
            if v != e.shadow:
                raise Violation(f'object #{i} ({e.cls}) changed after step {what}: was {e.shadow[:70]!r} (len {len(e.shadow)}), now {v[:70]!r} (len {len(v)})'
                                f' | history={self.log[-8:]}')
            if e.kind == 'bs':
                if len(e.obj) != len(e.shadow):
                    raise Violation(f'object #{i} len differs from len(bin) after step {what}')
                if e.hash is not None and hash(e.obj) != e.hash:
                    raise Violation(f'hash of immutable object #{i} changed after step {what}')

    def pick(self, raw, kinds=('bs',), pred=None):
        c = [i for i, e in enumerate(self.pool) if e.kind in kinds and (pred is None or pred(e))]
        if not c:
            return None
        return c[raw % len(c)]

    # ------------------------------------------------------------------ steps
    def step(self, s):
        op = s[0]
        if any(e.kind in ('bs', 'arr') and len(e.shadow) > 6000 for e in self.pool):
            return   # exponential growth through self-appends/repeats: nothing more to learn from this history
        self.log.append(s if len(str(s)) < 120 else [s[0], '...'])
        if op == 'create':
            self.create(*s[1:])
        elif op == 'create_src':
            self.create_src(*s[1:])
        elif op == 'create_kw':
            self.create_kw(*s[1:])
        elif op == 'derive':
            self.derive(*s[1:])
        elif op == 'aderive':
            self.aderive(*s[1:])
        elif op == 'mutate':
            self.mutate(*s[1:])
        elif op == 'mutate_src':
            self.mutate_src(*s[1:])
        elif op == 'mutate_arr':
            self.mutate_arr(*s[1:])
        elif op == 'poke':
            self.poke(*s[1:])
        self.check_all(what=str(s)[:100])

    def create(self, cls, bits, how):
        bs = self.bs
        c = cls_of(cls)
        if how in ('literal', 'fromstring', 'hexlit') and not bits:
            # the empty string (and blank / comma-only strings) are token strings too
            text = ['', ' ', ',', '', ' , '][len(self.pool) % 5]
            o = c.fromstring(text) if how == 'fromstring' else c(text)
        elif how == 'literal' and bits:
            o = c('0b' + bits)
        elif how == 'hexlit' and bits and len(bits) % 4 == 0:
            o = c('0x' + format(int(bits, 2), f'0{len(bits) // 4}x'))
        elif how == 'fromstring' and bits:
            o = c.fromstring('0b' + bits)
        elif how == 'uint' and bits:
            o = c(uint=int(bits, 2), length=len(bits))
        else:
            o = c(bin=bits)
        e = self.add(o, 'bs', cls)
        require(e.shadow == bits, 'created object has the wrong content', cls=cls, how=how)

    def create_kw(self, cls, ri, via):
        """build from a (dtype, length, value) recipe through one creation route; the same recipe must give the same bits every time in
        this history, whatever was done to the objects built from it before"""
        bs = self.bs
        name, n, v = RECIPES[ri % len(RECIPES)]
        c = cls_of(cls)
        tok = name if n is None else f'{name}:{n}'
        if isinstance(v, float):
            txt = repr(v)
        elif isinstance(v, bytes):
            txt = None
        else:
            txt = str(v)

        def build():
            if name == 'zeros':
                return c(v) if via != 'ctor_named_len' else c(length=v)
            if via == 'setter' and cls in MUTABLE:
                o = c() if n is None else c(n)
                setattr(o, name, v)
                return o
            if via == 'setter_named_len' and cls in MUTABLE and n is not None and name != 'zeros':
                o = c('0b1')
                setattr(o, f'{name}{n}', v)
                return o
            if via == 'pack':
                return bs.pack(tok, v)
            if via == 'token' and txt is not None and txt != '':
                return c(f'{tok}={txt}')
            if via == 'fromstring_token' and txt is not None and txt != '':
                return c.fromstring(f'{tok}={txt}')
            if via == 'dtype_build':
                return bs.Dtype(name, n).build(v)
            if via == 'ctor_named_len' and n is not None:
                return c(**{f'{name}{n}': v})
            if via == 'array_item' and name not in ('ue', 'se', 'uie', 'sie', 'hex', 'oct', 'bin', 'bytes', 'bool') :
                a = bs.Array(bs.Dtype(name, n), [v])
                return a
            return c(**{name: v}) if n is None else c(**{name: v}, length=n)
        o = attempt(build)
        if is_raised(o):
            return
        if isinstance(o, bs.Array):
            e = self.add(o, 'arr', 'Array')
        else:
            e = self.add(o, 'bs')
        key = ri % len(RECIPES)
        if key in self.recipe_first:
            require(e.shadow == self.recipe_first[key][0], 'the same (dtype, length, value) built again in this history gives different bits',
                    recipe=repr(RECIPES[key]), via=via, first=self.recipe_first[key], now=e.shadow)
        else:
            self.recipe_first[key] = (e.shadow, via)

    def create_src(self, kind, bits, cls):
        """external source kept alive + an object built from it"""
        import bitarray
        bits = bits + '0' * (-len(bits) % 8) if kind not in ('bitarray', 'list') else bits
        c = cls_of(cls)
        if kind == 'bytearray':
            src = bytearray(to_bytes(bits))
            o = c(src) if len(bits) % 16 else c(bytes=src)
        elif kind == 'memoryview':
            src = bytearray(to_bytes(bits))
            o = c(memoryview(src))
        elif kind == 'memoryview_ro':
            src = bytearray(to_bytes(bits))
            o = c(memoryview(src).toreadonly())
        elif kind == 'memoryview_slice':
            src = bytearray(b'\x5a' + to_bytes(bits) + b'\xa5')
            mv = memoryview(src)[1:-1]
            o = c(mv.toreadonly() if len(bits) % 16 else mv)
        elif kind == 'memoryview_kw':
            src = bytearray(to_bytes(bits))
            o = c(bytes=memoryview(src).toreadonly()) if len(bits) % 16 else c(bytes=memoryview(src))
        elif kind == 'memoryview_cast':
            src = array.array('B', to_bytes(bits))
            o = c(memoryview(src).cast('B').toreadonly())
        elif kind == 'bytearray_kw_window':
            src = bytearray(b'\xff' + to_bytes(bits))
            o = c(bytes=src, offset=8) if len(bits) % 16 else c(bytes=src, offset=8, length=len(bits))
        elif kind == 'array_H':
            bits = bits + '0' * (-len(bits) % 16)
            src = array.array('H', to_bytes(bits))
            o = c(src)
            bits = o.bin   # element byte order is the platform's: only isolation is checked here
        elif kind == 'bitarray_buffer':
            backing = bytearray(to_bytes(bits))
            src = bitarray.bitarray(buffer=backing, endian='big')
            o = c(src) if len(bits) % 16 else c(bitarray=src)
            self.add(backing, 'src', 'bytearray')
        elif kind == 'bitarray_frozen_src':
            src = bytearray(to_bytes(bits))
            fb = bitarray.bitarray(buffer=memoryview(src).toreadonly(), endian='big')   # read-only bitarray over a buffer that can still change
            o = c(fb) if len(bits) % 16 else c(bitarray=fb)
        elif kind == 'array':
            src = array.array('B', to_bytes(bits))
            o = c(src)
        elif kind == 'bitarray':
            src = bitarray.bitarray(bits)
            o = c(src) if len(bits) % 2 else c(bitarray=src)
        elif kind == 'bytesio':
            src = io.BytesIO(to_bytes(bits))
            o = c(src)
        else:
            src = [ch == '1' for ch in bits]
            o = c(src)
        self.add(src, 'src', kind)
        e = self.add(o, 'bs', cls)
        require(e.shadow == bits, 'object built from an external source has the wrong content', kind=kind)

    def derive(self, how, r1, r2, a, b):
        bs = self.bs
        i = self.pick(r1)
        if i is None:
            return
        x = self.pool[i].obj
        xb = self.pool[i].shadow
        j = self.pick(r2)
        y = self.pool[j].obj
        n = len(xb)
        new = None
        extra = []
        if how.startswith('ctor_'):
            new = cls_of(how[5:])(x)
        elif how == 'kw_bits':
            new = cls_of(CLASSES[a % 4])(bits=x)
        elif how == 'set_bits_prop':
            new = cls_of(MUTABLE[a % 2])('0b1')
            new.bits = x
        elif how == 'get_bits_prop':
            new = x.bits
        elif how == 'copycopy':
            new = copy.copy(x)
        elif how == 'deepcopy':
            new = copy.deepcopy(x)
        elif how == 'copy_method':
            new = x.copy()
        elif how == 'slice_all':
            new = x[:]
        elif how == 'slice_part':
            lo = a % (n + 1)
            new = x[lo:lo + b % (n + 1)]
        elif how == 'slice_step':
            new = x[::(-1 if a % 2 else 2)]
        elif how == 'add':
            new = x + y
        elif how == 'add_empty_left':
            new = cls_of(CLASSES[a % 4])() + x
        elif how == 'add_empty_right':
            new = x + cls_of(CLASSES[a % 4])()
        elif how == 'add_empty_left_literal':
            new = cls_of(CLASSES[a % 4])() + ('0b' + xb if xb else '')
        elif how == 'radd_empty_str':
            new = '' + x
        elif how == 'mul_one':
            new = x * 1 if a % 2 else 1 * x
        elif how == 'lshift0':
            new = (x << 0) if n else x[:]
        elif how == 'rshift0':
            new = (x >> 0) if n else x[:]
        elif how == 'and_ones':
            new = x & cls_of(CLASSES[a % 4])(bin='1' * n)
        elif how == 'cut_whole':
            items = list(x.cut(n + (a % 3))) if n else []
            new = items[0] if items else x[:]
        elif how == 'split_nomatch':
            items = list(x.split(mk('Bits', xb + '1')))
            new = items[0]
        elif how == 'join_single_self_empty':
            new = cls_of(CLASSES[a % 4])().join([x, cls_of(CLASSES[b % 4])()])
        elif how.startswith(('empty_', 'cleared_')):
            # a mutable object that is empty (fresh, or emptied by clear()) receives x as its whole content through an in-place operation
            new = cls_of(MUTABLE[a % 2])() if how.startswith('empty_') else cls_of(MUTABLE[a % 2])('0b1011')
            if how.startswith('cleared_'):
                new.clear()
            lit = ('0b' + xb) if xb else ''
            what = how.split('_', 1)[1]
            if what == 'append':
                new.append(x)
            elif what == 'prepend':
                new.prepend(x)
            elif what == 'append_literal':
                new.append(lit)
            elif what == 'prepend_literal':
                new.prepend(lit)
            elif what == 'iadd':
                new += x
            elif what == 'insert':
                new.insert(x, 0)
            elif what == 'setslice':
                new[0:0] = x
            elif what == 'overwrite0':
                new.overwrite(x, 0)
            elif what == 'replace_all':
                new.append('0b1')
                new.replace('0b1', x)
            elif what == 'imul_then_append':
                new *= 3
                new.append(x)
        elif how == 'whole_setslice':
            new = cls_of(MUTABLE[a % 2])('0b1011')
            new[:] = x
        elif how == 'radd_str':
            new = '0b1' + x
        elif how == 'mul':
            new = x * (a % 3)
        elif how == 'invert':
            new = ~x if n else x[:]
        elif how == 'and_self':
            new = x & x
        elif how == 'and_same':
            new = x | x
        elif how in ('or', 'xor'):
            t = cls_of(CLASSES[a % 4])(n)
            new = (x | t) if how == 'or' else (x ^ t)
        elif how == 'lshift':
            new = (x << (a % 4)) if n else x[:]
        elif how == 'rshift':
            new = (x >> (a % 4)) if n else x[:]
        elif how == 'join':
            new = x.join([y, x, y])
        elif how == 'join_empty':
            new = cls_of(CLASSES[a % 4])().join([x])
        elif how == 'fromstring':
            new = cls_of(CLASSES[a % 4]).fromstring('0b' + xb) if xb else x[:]
        elif how == 'literal':
            new = type(x)('0b' + xb) if xb else x[:]
        elif how == 'literal_other_cls':
            new = cls_of(CLASSES[a % 4])('0b' + xb) if xb else x[:]
        elif how == 'pack_bits':
            new = bs.pack('bits', x)
        elif how == 'pack_kw':
            new = bs.pack('a', a=x)
        elif how == 'pack_token_kw':
            new = bs.pack('bits=a, bits', y, a=x)
        elif how == 'dtype_build':
            new = bs.Dtype('bits').build(x)
        elif how == 'dtype_parse':
            new = bs.Dtype('bits').parse(x)
        elif how == 'unpack_bits':
            new = x.unpack('bits')[0]
        elif how == 'read':
            s = bs.ConstBitStream(x) if a % 2 else bs.BitStream(x)
            new = s.read(b % (n + 1))
            extra = [s]
        elif how == 'readlist':
            s = x if isinstance(x, bs.ConstBitStream) else bs.BitStream(x)
            old = s.pos
            s.pos = 0
            new = s.readlist([b % (n + 1)])[0]
            s.pos = old
        elif how == 'cut':
            items = list(x.cut(max(1, a % 9)))
            extra = items[1:3]
            new = items[0] if items else x[:]
        elif how == 'split':
            items = list(x.split('0b1'))
            extra = items[1:3]
            new = items[0]
        elif how == 'array_from':
            arr = bs.Array('uint8' if a % 2 else 'int4', x)
            self.add(arr, 'arr', 'Array')
            return
        elif how == 'array_trailing_only':
            # an Array that holds no items, only trailing bits taken from x (or from the literal of x)
            tb = x if a % 3 else (('0b' + xb) if xb else '')
            init = [None, 0, []][b % 3]
            arr = bs.Array('uint64' if a % 2 else 'float64', init, trailing_bits=tb) if init is not None else bs.Array('uint64', trailing_bits=tb)
            self.add(arr, 'arr', 'Array')
            return
        elif how == 'tobitarray':
            self.add(x.tobitarray(), 'ba', 'bitarray')
            return
        elif how == 'tobitarray_roundtrip':
            new = cls_of(CLASSES[a % 4])(x.tobitarray())
        elif how == 'auto_from_bitarray':
            t = x.tobitarray()
            new = cls_of(CLASSES[a % 4])(bitarray=t)
            self.add(t, 'ba', 'bitarray')
        else:
            raise AssertionError(how)
        for o in [new] + extra:
            if new is x and type(x).__name__ in IMMUTABLE:
                continue  # an immutable object may be returned as its own copy
            require(not (o is x), f'derivation {how} returned the very same mutable object')
            self.add(o, 'bs')

    def aderive(self, how, r1, a):
        bs = self.bs
        i = self.pick(r1, kinds=('arr',))
        if i is None:
            return
        arr = self.pool[i].obj
        if how == 'arr_slice':
            new = arr[:]
        elif how == 'arr_copy':
            new = copy.copy(arr)
        elif how == 'arr_from_arr':
            new = bs.Array(arr.dtype, arr)
        elif how == 'arr_slice_step':
            new = arr[::2] if a % 2 else arr[1:]
        elif how == 'arr_astype':
            new = arr.astype(arr.dtype)
        elif how == 'arr_data_copy':
            self.add(cls_of(CLASSES[a % 4])(arr.data), 'bs')
            return
        else:
            new = bs.Array(arr.dtype)
            if not arr.trailing_bits:
                new.extend(arr)
        self.add(new, 'arr', 'Array')

    def mutate(self, how, r1, r2, a, b, bits):
        bs = self.bs
        i = self.pick(r1, pred=lambda e: e.cls in MUTABLE)
        if i is None:
            return
        e = self.pool[i]
        x = e.obj
        before = e.shadow
        n = len(before)
        j = self.pick(r2)
        other = self.pool[j].obj if (a % 3 == 0) else mk('Bits', bits)
        same_len_other = None
        for cand in self.pool:
            if cand.kind == 'bs' and len(cand.shadow) == n and cand is not e and b % 2:
                same_len_other = cand.obj
                break
        if same_len_other is None:
            same_len_other = mk('Bits', (bits * (n // max(1, len(bits)) + 1))[:n] if bits else '0' * n)

        def do():
            nonlocal x
            if how == 'invert_all':
                x.invert()
            elif how == 'invert_one':
                x.invert(a % n)
            elif how == 'set_all':
                x.set(a % 2)
            elif how == 'set_one':
                x.set(a % 2, b % n)
            elif how == 'append':
                x.append(other)
            elif how == 'prepend':
                x.prepend(other)
            elif how == 'insert':
                x.insert(other, a % (n + 1))
            elif how == 'overwrite':
                x.overwrite(other, a % (n + 1))
            elif how == 'del_slice':
                del x[a % (n + 1):(a % (n + 1)) + b % 5]
            elif how == 'setitem':
                x[a % n] = b % 2
            elif how == 'setslice':
                x[a % (n + 1):(a % (n + 1)) + b % 5] = other
            elif how == 'replace':
                x.replace('0b1' if a % 2 else '0b0', other)
            elif how == 'reverse':
                x.reverse()
            elif how == 'rol':
                x.rol(1 + a % 5)
            elif how == 'ror':
                x.ror(1 + a % 5)
            elif how == 'byteswap':
                x.byteswap()
            elif how == 'ilshift':
                x <<= 1 + a % 3
            elif how == 'irshift':
                x >>= 1 + a % 3
            elif how == 'imul':
                x *= a % 3
            elif how == 'prop_named_len':
                # assignment through an attribute name that carries the length (u12, float32, hex8, bin5 ...)
                nm, val = [('u12', 5), ('i9', -3), ('float32', 0.5), ('hex8', 'a5'), ('bin5', '10110'), ('uint64', 2 ** 63 + 1), ('bytes2', b'ab'), ('floatle16', 1.5), ('bool', 1), ('uintle16', 258),
                           ('e4m3mxfp', 1.5), ('oct6', '17')][a % 12]
                setattr(x, nm, val)
            elif how == 'setslice_all':
                x[:] = other
            elif how == 'setslice_tail':
                x[0:] = other
            elif how == 'setslice_all_literal':
                x[:] = ('0b' + bits) if bits else '0b1'
            elif how == 'ilshift_all':
                x <<= n + (a % 3)
            elif how == 'irshift_all':
                x >>= n + (a % 3)
            elif how == 'iand_zeros':
                x &= mk('Bits', '0' * n)
            elif how == 'ior_ones':
                x |= mk('Bits', '1' * n)
            elif how == 'imul_one':
                x *= 1
            elif how == 'set_all_then_invert':
                x.set(1)
                x.invert()
            elif how == 'iand':
                x &= same_len_other
            elif how == 'ior':
                x |= same_len_other
            elif how == 'ixor':
                x ^= same_len_other
            elif how == 'clear':
                x.clear()
            elif how == 'iadd':
                x += other
            elif how == 'prop_uint':
                x.uint = a % (1 << max(n, 1))
            elif how == 'prop_bin':
                x.bin = bits
            elif how == 'prop_hex':
                x.hex = 'a5'
            elif how == 'prop_bits':
                x.bits = other
            elif how == 'prop_bytes':
                x.bytes = b'\x5a'
            require(x is e.obj, 'in-place operation rebound the object')
        attempt(do)
        self.refresh(e)
        if e.shadow != before and len(self.pool) > 1:
            self.related_mutation = True
        self.check_all(except_idx=i, what=f'mutate {how} on #{i}')

    def mutate_src(self, r1, a, b):
        i = self.pick(r1, kinds=('src', 'ba'))
        if i is None:
            return
        src = self.pool[i].obj
        kind = self.pool[i].cls

        def do():
            if kind in ('bytearray', 'memoryview', 'memoryview_ro', 'memoryview_slice', 'memoryview_kw', 'bytearray_kw_window', 'bitarray_frozen_src'):
                if a % 4 == 0:
                    src.extend(b'\xff')
                elif a % 4 == 1 and len(src):
                    del src[0]
                elif len(src):
                    src[b % len(src)] ^= 0xff
            elif kind in ('array', 'array_H', 'memoryview_cast'):
                if a % 3 == 0:
                    src.append(255)
                elif len(src):
                    src[b % len(src)] ^= 0xff
            elif kind in ('bitarray', 'bitarray_buffer'):
                m = a % 6
                if m == 0:
                    src.invert()
                elif m == 1:
                    src.clear()
                elif m == 2:
                    src.extend('101')
                elif m == 3 and len(src):
                    src[b % len(src)] = not src[b % len(src)]
                elif m == 4:
                    src.reverse()
                else:
                    src.setall(a % 2)
            elif kind == 'bytesio':
                if a % 2 and len(src.getvalue()):
                    # in-place edit through the stream's own buffer view (possible even while something else holds a view of it)
                    with src.getbuffer() as view:
                        view[b % len(view)] ^= 0xff
                else:
                    src.seek(0)
                    src.write(b'\xff\x00\xff')
            elif kind == 'list':
                if src:
                    src[b % len(src)] = not src[b % len(src)]
                src.append(True)
        attempt(do)
        self.related_mutation = True

    def mutate_arr(self, r1, a, b):
        i = self.pick(r1, kinds=('arr',))
        if i is None:
            return
        e = self.pool[i]
        arr = e.obj
        before = e.shadow

        def do():
            m = a % 10
            if m == 8:
                arr.data.invert()
            elif m == 9:
                arr.data.append('0b1')
            elif m == 0 and len(arr):
                arr[b % len(arr)] = 5
            elif m == 1:
                arr.append(3)
            elif m == 2:
                arr.reverse()
            elif m == 3 and len(arr):
                arr.pop()
            elif m == 4:
                arr.insert(0, 1)
            elif m == 5:
                arr.extend([1, 2])
            elif m == 6 and len(arr):
                del arr[0]
            elif len(arr):
                arr[0:1] = [7, 7]
        attempt(do)
        self.refresh(e)
        if e.shadow != before:
            self.related_mutation = True

    def poke(self, what, r1, a, bits):
        bs = self.bs
        i = self.pick(r1, pred=lambda e: e.cls in IMMUTABLE)
        if i is None:
            return
        e = self.pool[i]
        x = e.obj
        n = len(e.shadow)
        arg = mk('Bits', bits)

        def do():
            if what == 'all_callables':
                names = [nm for nm in dir(x) if not nm.startswith('_') and nm not in ('tofile', 'pp', 'join')]
                nm = names[a % len(names)]
                f = getattr(x, nm)
                if callable(f):
                    for args in ((), (arg,), (arg, 0), (1,), (1, 0), (0, 0), (arg, arg)):
                        r = attempt(f, *args)
                        if hasattr(r, '__next__'):
                            attempt(list, r)
                return
            if what.startswith('op_'):
                f = getattr(operator, what[3:])
                y = x
                y = f(y, arg if what[3:] in ('iadd', 'iand', 'ior', 'ixor') else a % 3)
                return
            if what.startswith('setattr_'):
                val = {'uint': 1, 'int': -1, 'bin': bits, 'hex': 'f', 'bits': arg, 'bytes': b'a'}[what[8:]]
                setattr(x, what[8:], val)
                return
            if what == 'delitem_stmt':
                del x[0:1]
                return
            if what == 'setitem_stmt':
                x[0:1] = arg
                return
            f = getattr(x, what)
            for args in ((arg,), (arg, 0), (), (1,), (1, 0), (a % 3,), (arg, arg), (slice(0, 1), arg), (0, 1), (slice(0, 1),)):
                attempt(f, *args)
        attempt(do)
        self.related_mutation = True
        v = x.bin
        require(v == e.shadow, f'immutable {e.cls} changed its own content through {what}', was=e.shadow[:70], now=v[:70])


# ---------------------------------------------------------------------------------------------
# generator

small_bits = bits_st(max_len=40)
raw = st.integers(0, 1000)


@st.composite
def step_st(draw, focus):
    k = draw(st.integers(0, 99))
    if k < 14:
        return ['create', draw(cls_st), draw(small_bits) if draw(st.integers(0, 5)) else '', draw(st.sampled_from(['bin', 'literal', 'hexlit', 'fromstring', 'uint']))]
    if k < 18:
        return ['create_kw', draw(cls_st), draw(st.integers(0, len(RECIPES) - 1)), draw(st.sampled_from(KW_VIAS))]
    if k < 24:
        return ['create_src', draw(st.sampled_from(SOURCE_KINDS)), draw(small_bits), draw(cls_st)]
    if k < 50:
        return ['derive', draw(st.sampled_from(focus.get('derives', DERIVES))), draw(raw), draw(raw), draw(raw), draw(raw)]
    if k < 56:
        return ['aderive', draw(st.sampled_from(ARRAY_DERIVES)), draw(raw), draw(raw)]
    if k < 80:
        return ['mutate', draw(st.sampled_from(MUTATORS)), draw(raw), draw(raw), draw(raw), draw(raw), draw(bits_st(max_len=12))]
    if k < 88:
        return ['mutate_src', draw(raw), draw(raw), draw(raw)]
    if k < 93:
        return ['mutate_arr', draw(raw), draw(raw), draw(raw)]
    return ['poke', draw(st.sampled_from(POKES)), draw(raw), draw(raw), draw(bits_st(max_len=9))]


def history_st(focus=None, max_steps=40):
    focus = focus or {}

    @st.composite
    def h(draw, tier=None):
        first = [['create', draw(cls_st), draw(bits_st(max_len=40, min_len=1)), draw(st.sampled_from(['bin', 'literal', 'fromstring']))],
                 ['create', draw(st.sampled_from(MUTABLE)), draw(bits_st(max_len=40, min_len=1)), draw(st.sampled_from(['bin', 'literal', 'fromstring']))]]
        steps = draw(st.lists(step_st(focus), min_size=1, max_size=max_steps))
        return {'steps': first + steps}
    return h


def run_history(case):
    w = World()
    kinds = set()
    for s in case['steps']:
        w.step(s)
        kinds.add(s[0] + ':' + str(s[1]) if s[0] in ('derive', 'mutate', 'poke') else s[0])
    return {'nt': w.related_mutation, 'labels': sorted(kinds)[:50]}


# focused two/three step checks: one derivation, then mutate child or parent

@st.composite
def pair_case(draw, tier):
    cls = draw(cls_st)
    bits = draw(bits_st(max_len=70, min_len=1))
    how = draw(st.sampled_from(DERIVES))
    side = draw(st.sampled_from(['child', 'parent']))
    create_how = draw(st.sampled_from(['bin', 'literal', 'fromstring', 'hexlit']))
    steps = [['create', cls, bits, create_how], ['create', draw(cls_st), draw(bits_st(max_len=20)), 'bin'],
             ['derive', how, 0, draw(raw), draw(raw), draw(raw)]]
    nm = draw(st.integers(1, 3))
    for _ in range(nm):
        steps.append(['mutate', draw(st.sampled_from(MUTATORS)), draw(raw), draw(raw), draw(raw), draw(raw), draw(bits_st(max_len=12))])
        if draw(st.booleans()):
            steps.append(['mutate_src', draw(raw), draw(raw), draw(raw)])
    # afterwards re-create from the same literal: the string cache must still give the right bits
    steps.append(['create', draw(cls_st), bits, 'literal'])
    steps.append(['create', draw(cls_st), bits, 'fromstring'])
    return {'steps': steps}


COPY_LIKE = ['whole_setslice', 'ctor_Bits', 'ctor_BitArray', 'ctor_ConstBitStream', 'ctor_BitStream', 'kw_bits', 'copy_method', 'copycopy', 'slice_all', 'set_bits_prop', 'get_bits_prop', 'pack_bits',
             'dtype_build', 'tobitarray_roundtrip', 'fromstring', 'literal', 'add_empty_right', 'empty_append', 'empty_prepend', 'deepcopy']


@st.composite
def chain_case(draw, tier):
    """derivation chains: x -> d1(x) -> d2(d1) [-> d3(d2)], then in-place edits of the most recently derived mutable objects and of x"""
    cls = draw(cls_st)
    steps = [['create', cls, draw(bits_st(max_len=70, min_len=1)), draw(st.sampled_from(['bin', 'literal', 'fromstring', 'hexlit']))]]
    structural = ['slice_all', 'slice_part', 'slice_step', 'cut', 'split', 'read', 'copy_method', 'copycopy', 'add', 'mul', 'invert', 'join', 'kw_bits', 'set_bits_prop', 'fromstring',
                  'pack_bits', 'tobitarray_roundtrip', 'empty_append', 'lshift', 'or']
    if draw(st.integers(0, 2)) == 0:
        # the source itself has just been produced by an in-place operation
        steps.append(['mutate', draw(st.sampled_from(['ilshift_all', 'irshift_all', 'iand_zeros', 'ior_ones', 'imul_one', 'set_all_then_invert', 'ilshift', 'clear', 'prop_bin', 'reverse', 'invert_all',
                                                      'iadd', 'prop_uint', 'prop_named_len', 'prop_named_len', 'prop_named_len', 'setslice_all', 'prop_bits', 'prop_hex', 'prop_bytes'])),
                      0, draw(raw), draw(raw), draw(raw), draw(bits_st(max_len=12))])
    steps.append(['derive', draw(st.sampled_from(structural if draw(st.booleans()) else DERIVES)), 0, draw(raw), draw(raw), draw(raw)])
    for _ in range(draw(st.integers(1, 2))):
        k = draw(st.integers(0, 3))
        how = draw(st.sampled_from(['ctor_Bits', 'ctor_BitArray', 'ctor_ConstBitStream', 'ctor_BitStream'])) if k < 2 else draw(st.sampled_from(COPY_LIKE if k == 2 else DERIVES))
        steps.append(['derive', how, draw(st.sampled_from([-1, -1, -2])), draw(raw), draw(raw), draw(raw)])
    for _ in range(draw(st.integers(1, 3))):
        steps.append(['mutate', draw(st.sampled_from(MUTATORS)), draw(st.sampled_from([-1, -2, -2, -3, 0])), draw(raw), draw(raw), draw(raw), draw(bits_st(max_len=12))])
    steps.append(['derive', draw(st.sampled_from(['ctor_Bits', 'ctor_BitArray', 'copy_method', 'literal', 'slice_all'])), draw(st.sampled_from([-1, -2, 0])), 0, 0, 0])
    return {'steps': steps}


@st.composite
def source_case(draw, tier):
    steps = [['create_src', draw(st.sampled_from(SOURCE_KINDS)), draw(bits_st(max_len=70, min_len=1)), draw(cls_st)]]
    for _ in range(draw(st.integers(1, 6))):
        k = draw(st.integers(0, 3))
        if k == 0:
            steps.append(['derive', draw(st.sampled_from(DERIVES)), draw(raw), draw(raw), draw(raw), draw(raw)])
        elif k == 1:
            steps.append(['mutate', draw(st.sampled_from(MUTATORS)), draw(raw), draw(raw), draw(raw), draw(raw), draw(bits_st(max_len=12))])
        else:
            steps.append(['mutate_src', draw(raw), draw(raw), draw(raw)])
    return {'steps': steps}


@st.composite
def immutable_case(draw, tier):
    cls = draw(st.sampled_from(IMMUTABLE))
    bits = draw(bits_st(max_len=40, min_len=1))
    steps = [['create', cls, bits, draw(st.sampled_from(['bin', 'literal', 'fromstring']))]]
    for _ in range(draw(st.integers(1, 5))):
        steps.append(['poke', draw(st.sampled_from(POKES)), 0, draw(raw), draw(bits_st(max_len=9))])
    steps.append(['create', draw(cls_st), bits, 'literal'])
    return {'steps': steps}


@st.composite
def empty_case(draw, tier):
    """several empty objects made from empty / blank strings and other routes, grown in place in between"""
    steps = []
    for _ in range(draw(st.integers(2, 5))):
        steps.append(['create', draw(cls_st) if draw(st.booleans()) else draw(st.sampled_from(MUTABLE)), '', draw(st.sampled_from(['literal', 'fromstring', 'bin', 'literal']))])
        if draw(st.booleans()):
            steps.append(['mutate', draw(st.sampled_from(['append', 'prepend', 'insert', 'iadd', 'setslice', 'prop_bin', 'prop_hex', 'imul'])), draw(raw), draw(raw), draw(raw), draw(raw),
                          draw(bits_st(max_len=12, min_len=1))])
        if draw(st.integers(0, 3)) == 0:
            steps.append(['derive', draw(st.sampled_from(['empty_append', 'empty_prepend', 'add_empty_left', 'join_empty', 'literal', 'fromstring', 'ctor_Bits', 'ctor_BitArray'])),
                          draw(raw), draw(raw), draw(raw), draw(raw)])
    return {'steps': steps}


@st.composite
def created_case(draw, tier):
    """the same recipe built several times through different routes, mutations in between, then built again"""
    ri = draw(st.integers(0, len(RECIPES) - 1))
    steps = []
    for _ in range(draw(st.integers(1, 3))):
        steps.append(['create_kw', draw(cls_st), ri, draw(st.sampled_from(KW_VIAS))])
    steps.append(['create_kw', draw(st.sampled_from(MUTABLE)), ri, draw(st.sampled_from(['setter', 'ctor', 'pack', 'setter']))])
    for _ in range(draw(st.integers(1, 3))):
        steps.append(['mutate', draw(st.sampled_from(MUTATORS)), draw(raw), draw(raw), draw(raw), draw(raw), draw(bits_st(max_len=12))])
        if draw(st.integers(0, 3)) == 0:
            steps.append(['mutate_arr', draw(raw), draw(raw), draw(raw)])
    for _ in range(draw(st.integers(1, 2))):
        steps.append(['create_kw', draw(cls_st), ri, draw(st.sampled_from(KW_VIAS))])
    return {'steps': steps}


@st.composite
def array_case(draw, tier):
    steps = [['create', draw(cls_st), draw(bits_st(max_len=64, min_len=8)), 'bin'], ['derive', 'array_from', 0, 0, draw(raw), 0]]
    for _ in range(draw(st.integers(1, 8))):
        k = draw(st.integers(0, 3))
        if k == 0:
            steps.append(['aderive', draw(st.sampled_from(ARRAY_DERIVES)), draw(raw), draw(raw)])
        elif k == 1:
            steps.append(['mutate_arr', draw(raw), draw(raw), draw(raw)])
        elif k == 2:
            steps.append(['mutate', draw(st.sampled_from(MUTATORS)), draw(raw), draw(raw), draw(raw), draw(raw), draw(bits_st(max_len=12))])
        else:
            steps.append(['derive', 'array_from', draw(raw), 0, draw(raw), 0])
    return {'steps': steps}


SUBCHECKS = [
    Sub('C04.derive_then_mutate', run_history, strategy=pair_case, ambient=('bytealigned', 'lsb0'), examples={'quick': 12000, 'thorough': 200000}),
    Sub('C04.derivation_chains', run_history, strategy=chain_case, ambient=('bytealigned', 'lsb0'), examples={'quick': 12000, 'thorough': 150000}),
    Sub('C04.external_source', run_history, strategy=source_case, ambient=('bytealigned', 'lsb0'), examples={'quick': 5000, 'thorough': 60000}),
    Sub('C04.immutable_surface', run_history, strategy=immutable_case, ambient=('bytealigned', 'lsb0'), examples={'quick': 4000, 'thorough': 50000}),
    Sub('C04.empty_objects', run_history, strategy=empty_case, ambient=('bytealigned', 'lsb0'), examples={'quick': 3000, 'thorough': 40000}),
    Sub('C04.created_values', run_history, strategy=created_case, ambient=('bytealigned', 'lsb0'), examples={'quick': 6000, 'thorough': 80000}),
    Sub('C04.array', run_history, strategy=array_case, ambient=('bytealigned', 'lsb0'), examples={'quick': 3000, 'thorough': 40000}),
    Sub('C04.history', run_history, strategy=history_st(), ambient=('bytealigned', 'lsb0'), examples={'quick': 4000, 'thorough': 60000}),
]
