"""C17 - byte and file serialisation is lossless and zero-padded."""
import io
import os

from hypothesis import strategies as st

from vf.engine import Sub, require, bitstring_module
from vf.common import bits_st, bits_of_len, cls_st, mk, attempt, is_raised, cls_of, CLASSES, to_bytes, lenbucket, MEM_ROUTES, build_route
from vf import files

RULE = ("cases = (content of every length residue mod 8 up to several thousand bits, class or Array, writer [tobytes, bytes(), .bytes, tofile to BytesIO / real file], "
        "reader over a byte source with every (offset, length) window incl. windows ending mid-byte and at the end [bytes=, BytesIO, open handle, filename=, "
        "Array.fromfile]); with the hook, tofile chunk sizes 8/64/4096 bits against data below/at/above 1..3 chunks; the real 100 MiB chunk boundary is crossed "
        "without the hook (1 size in quick, 4 in thorough). Oracle: int(bits + zero padding, 2).to_bytes and the selected window of the source bits. "
        "Non-trivial = len % 8 != 0, or a window with offset % 8 != 0 or ending mid-byte, or size >= 1 chunk; distinct = SHA-1 of the case.")
ASSUMPTIONS = ["hook BITSTRING_VERIF_TOFILE_CHUNK_BITS (guarded by BITSTRING_VERIF=1) only replaces the chunk size constant of Bits.tofile"]

REAL_CHUNK_BITS = 8 * 100 * 1024 * 1024


def ref_bytes(bits):
    padded = bits + '0' * (-len(bits) % 8)
    return int(padded, 2).to_bytes(len(padded) // 8, 'big') if padded else b''


def bits_of(b):
    return ''.join(format(x, '08b') for x in b)


# ------------------------------------------------------------------------------------------- writers

@st.composite
def write_case(draw, tier):
    k = draw(st.integers(0, 19))
    if k == 19:
        from vf.common import big_bits_st
        bits = draw(big_bits_st())     # megabit-scale content, stored compactly
    elif k == 0:
        bits = draw(bits_of_len(draw(st.integers(4000, 9000))))
    else:
        bits = draw(bits_st(max_len=600, long=True))
    return {'bits': bits, 'cls': draw(cls_st), 'route': draw(st.sampled_from(MEM_ROUTES + files.FILE_ROUTES + files.FILE_ROUTES)), 'array_dtype': draw(st.sampled_from(['uint8', 'uint3', 'int12', 'hex4', 'bool', 'float16'])),
            'chunk': draw(st.sampled_from([None, None, 8, 64, 4096, 16, 24]))}


def run_write(case):
    bs = bitstring_module()
    from vf.common import expand_bits
    bits = expand_bits(case['bits'])
    n = len(bits)
    exp = ref_bytes(bits)
    src_tmp = None
    if case['route'] in files.FILE_ROUTES:
        src_tmp = files.TempDir()
        src_tmp.__enter__()
        x = files.build_file_route(case['cls'], bits, case['route'], 7, src_tmp)
    else:
        x = build_route(case['cls'], bits, case['route'], 7)
    try:
        return _run_write(case, bs, bits, n, exp, x)
    finally:
        del x
        if src_tmp is not None:
            src_tmp.__exit__(None, None, None)


def _run_write(case, bs, bits, n, exp, x):
    require(x.tobytes() == exp, 'tobytes() is not the bits followed by 0-7 zero bits', got=x.tobytes().hex()[:80], expected=exp.hex()[:80], n=n)
    require(bytes(x) == exp, 'bytes(s) differs from tobytes()')
    b = attempt(lambda: x.bytes)
    if n % 8 == 0:
        require(b == exp and not is_raised(b), '.bytes differs from tobytes() for a whole-byte length', got=b)
    else:
        require(is_raised(b, ValueError), '.bytes must refuse a length that is not a whole number of bytes (InterpretError)', got=b, n=n)
    chunk = case['chunk']
    if chunk and n > 100000:
        chunk = max(chunk, 8 * 8192)     # keep the number of chunks of a megabit object moderate
    old = os.environ.pop('BITSTRING_VERIF_TOFILE_CHUNK_BITS', None)
    try:
        if chunk:
            os.environ['BITSTRING_VERIF_TOFILE_CHUNK_BITS'] = str(chunk)
        f = io.BytesIO()
        x.tofile(f)
        require(f.getvalue() == exp, 'tofile() to BytesIO did not write exactly tobytes()', got=f.getvalue().hex()[:80], expected=exp.hex()[:80], n=n, chunk=chunk, written=len(f.getvalue()))
        with files.TempDir() as tmp:
            p = os.path.join(tmp.path, 'out.bin')
            with open(p, 'wb') as fh:
                x.tofile(fh)
            with open(p, 'rb') as fh:
                data = fh.read()
            require(data == exp, 'tofile() to a real file did not write exactly tobytes()', n=n, chunk=chunk, written=len(data))
            # read back: recovers exactly the bits
            if n:
                back = cls_of(case['cls'])(filename=p, length=n)
                require(back.bin == bits, 'reading the written file back does not recover the bits', n=n)
                del back
        if bs.options.lsb0:
            return {'nt': n % 8 != 0, 'labels': ['lsb0']}     # Array under lsb0 is not specified by the statement
        # Array
        a = bs.Array(case['array_dtype'], bs.BitArray(bin=bits))
        require(a.tobytes() == exp, 'Array.tobytes() differs from the padded data bytes', n=n)
        f = io.BytesIO()
        a.tofile(f)
        require(f.getvalue() == exp, 'Array.tofile() did not write exactly tobytes()', n=n, chunk=chunk)
    finally:
        os.environ.pop('BITSTRING_VERIF_TOFILE_CHUNK_BITS', None)
        if old is not None:
            os.environ['BITSTRING_VERIF_TOFILE_CHUNK_BITS'] = old
    require(x.bin == bits, 'serialising modified the object')
    nt = n % 8 != 0 or (chunk is not None and n >= chunk)
    return {'nt': nt, 'labels': ['n%%8=%d' % (n % 8), 'chunk=%s' % chunk, 'chunks=%d' % (min(n // chunk, 4) if chunk else 0), case['cls']]}


# hook: sizes right around 1, 2, 3 chunks (enumerated)

def enum_chunks(tier):
    for chunk in (8, 64, 4096):
        for k in (1, 2, 3):
            for d in (-9, -8, -7, -1, 0, 1, 7, 8, 9):
                n = k * chunk + d
                if n >= 0:
                    yield {'chunk': chunk, 'n': n, 'cls': CLASSES[(k + d) % 4]}


def run_chunks(case):
    n, chunk = case['n'], case['chunk']
    bits = ('1011001110001111' * (n // 16 + 1))[:n]
    exp = ref_bytes(bits)
    x = mk(case['cls'], bits)
    os.environ['BITSTRING_VERIF_TOFILE_CHUNK_BITS'] = str(chunk)
    try:
        f = io.BytesIO()
        x.tofile(f)
    finally:
        os.environ.pop('BITSTRING_VERIF_TOFILE_CHUNK_BITS', None)
    require(f.getvalue() == exp, 'tofile() across the chunk boundary did not write exactly tobytes()', n=n, chunk=chunk, written=len(f.getvalue()), expected=len(exp))
    return {'nt': True, 'labels': ['chunk=%d' % chunk]}


def enum_real(tier):
    base = REAL_CHUNK_BITS
    if tier == 'quick':
        yield {'n': base + 8 + 3}
    else:
        for d in (-5, 0, 3, 8 + 3):
            yield {'n': base + d}
        yield {'n': 2 * base + 13}


def run_real(case):
    """crosses the real chunk boundary of tofile without any hook"""
    bs = bitstring_module()
    n = case['n']
    os.environ.pop('BITSTRING_VERIF_TOFILE_CHUNK_BITS', None)
    nbytes = (n + 7) // 8
    data = (bytes(range(1, 252)) * (nbytes // 251 + 1))[:nbytes]
    x = bs.Bits(bytes=data, length=n)
    f = io.BytesIO()
    x.tofile(f)
    v = f.getvalue()
    pad = -n % 8
    last = data[-1] & (0xff << pad) & 0xff
    require(len(v) == nbytes, 'tofile() of data larger than the chunk size wrote the wrong number of bytes (mid-stream padding?)', got=len(v), expected=nbytes, n=n)
    require(v[:-1] == data[:-1] and v[-1] == last, 'tofile() of data larger than the chunk size wrote different bytes', n=n)
    del v, f, x, data
    return {'nt': True, 'labels': ['real-chunk']}


# ------------------------------------------------------------------------------------------- readers

READERS = ['bytes_kw', 'bytearray_kw', 'memoryview_kw', 'memoryview_wide_kw', 'memoryview_auto', 'array_wide_auto', 'bytesio', 'filename', 'filehandle', 'pathlib', 'array_fromfile', 'array_bytes', 'array_init_handle']


@st.composite
def read_case(draw, tier):
    big = draw(st.integers(0, 7)) == 0
    if big:
        # sources longer than one or two mmap pages, windows starting on / next to a page boundary
        nbytes = draw(st.sampled_from([4097, 4200, 8192, 8200, 8300, 12290]))
        unit = draw(bits_of_len(61))
        src = (unit * (8 * nbytes // 61 + 1))[:8 * nbytes]
        total = len(src)
        off = draw(st.sampled_from([32768, 32768, 32769, 32776, 32760, 32767, 65536, 65537, 65544, 98304, None, 0]))
    else:
        nbytes = draw(st.integers(1, 40)) if draw(st.integers(0, 9)) else draw(st.integers(500, 1200))
        src = draw(bits_of_len(8 * nbytes))
        total = len(src)
        off = draw(st.sampled_from([None, 0, 1, 3, 7, 8, 9, 16]) | st.integers(0, total))
    off = min(off, total) if off is not None else None
    o = off or 0
    ln = draw(st.sampled_from([None, total - o, max(total - o - 1, 0), max(total - o - 8, 0), 0, 1, 8]) | st.integers(0, total - o))
    ln = None if ln is None else min(ln, total - o)
    return {'src': src, 'offset': off, 'length': ln, 'reader': draw(st.sampled_from(READERS)), 'cls': draw(cls_st), 'item': draw(st.sampled_from([8, 16, 4, 3, 12, 24]))}


def run_read(case):
    bs = bitstring_module()
    src, off, ln = case['src'], case['offset'], case['length']
    total = len(src)
    o = off or 0
    exp = src[o:] if ln is None else src[o:o + ln]
    c = cls_of(case['cls'])
    kw = {}
    if off is not None:
        kw['offset'] = off
    if ln is not None:
        kw['length'] = ln
    b = to_bytes(src)
    reader = case['reader']
    with files.TempDir() as tmp:
        if reader == 'bytes_kw':
            x = c(bytes=b, **kw)
        elif reader == 'bytearray_kw':
            x = c(bytes=bytearray(b), **kw)
        elif reader in ('memoryview_kw', 'memoryview_wide_kw', 'memoryview_auto', 'array_wide_auto'):
            # buffer objects other than bytes: their bytes in memory order are the data, whatever the item width or shape of the view
            import array as _array
            pad = b + b'\xff' * (-len(b) % 4) if reader != 'memoryview_kw' else b
            views = [lambda: memoryview(_array.array('H', pad)), lambda: memoryview(pad).cast('I'), lambda: memoryview(pad).cast('B', (2, len(pad) // 2)),
                     lambda: memoryview(bytearray(pad)).toreadonly(), lambda: memoryview(pad)[::1]]
            mv = memoryview(b) if reader == 'memoryview_kw' else views[(case['item'] + total) % len(views)]()
            if reader == 'array_wide_auto':
                mv = _array.array('H', pad)
            if len(pad) != len(b) and ln is None:
                kw['length'] = ln = total - o      # the padding added for the item width is not part of the source
            if reader in ('memoryview_auto', 'array_wide_auto') and not kw:
                x = c(mv)           # the auto initialiser takes whole buffers only (no offset / length)
            else:
                x = c(bytes=mv, **kw)
        elif reader == 'bytesio':
            # the whole buffer is the source, wherever its stream position happens to be
            how = (case['item'] + total) % 6
            f = io.BytesIO(b)
            if how == 1:
                f = io.BytesIO()
                f.write(b)                       # just written: position at the end
            elif how == 2:
                f.read(min(3, len(b)))           # partly read by the caller
            elif how == 3:
                c(f)                             # already used once as a whole initialiser
            elif how == 4 and total >= 16:
                c(f, offset=8, length=8)         # already used once with a window
            elif how == 5:
                bs.Bits(bytes=b).tofile(f)       # filled by tofile()
            x = c(f, **kw) if kw else c(f)
        elif reader in ('filename', 'pathlib'):
            p = tmp.new(b)
            if reader == 'pathlib':
                import pathlib
                p = pathlib.Path(p)
            x = c(filename=p, **kw)
        elif reader == 'filehandle':
            p = tmp.new(b)
            with open(p, 'rb') as fh:
                x = c(fh, **kw) if kw else c(fh)
        else:
            bs.options.lsb0 = False      # Array under lsb0 is not specified by the statement
            # Array.fromfile(f, n) / Array(dtype, bytes): whole items from the start of the source
            w = case['item']
            kind = ['uint', 'bytes', 'int', 'hex', 'uint', 'bytes', 'bin', 'bits'][(total // 8 + w) % 8]
            dt = f'bytes{w // 8}' if kind == 'bytes' and w % 8 == 0 else (f'hex{w}' if kind == 'hex' and w % 4 == 0 else (f'{kind}{w}' if kind in ('int', 'bin', 'bits') else f'uint{w}'))
            n_items = (len(exp) // w) if ln is not None else None
            p = tmp.new(b)
            if reader == 'array_fromfile':
                a = bs.Array(dt)
                pre = ''
                if (total + w) % 3 == 0 and total >= w:
                    # an Array that already holds items: fromfile appends to them
                    pre = src[:w] * 2
                    a = bs.Array(dt, bs.Bits(bin=pre))
                with open(p, 'rb') as fh:
                    r = attempt(a.fromfile, fh, n_items)
                avail = total // w
                want_items = avail if n_items is None else min(n_items, avail)
                if n_items is not None and n_items > avail:
                    require(is_raised(r, EOFError), 'fromfile asked for more items than the file holds must raise EOFError', got=r)
                else:
                    require(not is_raised(r), 'fromfile raised', got=r)
                require(a.data.bin == pre + src[:want_items * w], 'Array.fromfile did not append exactly the requested items to what the Array held', got=len(a.data),
                        expected=len(pre) + want_items * w, w=w, preloaded=bool(pre))
                a2 = bs.Array(dt)
                with open(p, 'rb') as fh:
                    a2.fromfile(fh)
                require(a2.data.bin == src[:(total // w) * w], 'Array.fromfile(f) without a count must read every whole item', w=w)
            elif reader == 'array_init_handle':
                with open(p, 'rb') as fh:
                    a = attempt(bs.Array, dt, fh)
                    require(not is_raised(a), 'Array(dtype, open file) raised', got=a)
                require(a.data.bin == src[:(total // w) * w] and len(a) == total // w, 'Array(dtype, open file) must hold every whole item of the file', got=len(a.data), expected=(total // w) * w, w=w)
            else:
                a = bs.Array(dt, b)
                require(a.data.bin == src and len(a) == total // w and a.trailing_bits.bin == src[(total // w) * w:], 'Array(dtype, bytes) does not hold the source bits', w=w)
            return {'nt': True, 'labels': [reader]}
        require(x.bin == exp and len(x) == len(exp), 'read-back object is not exactly the selected bit window', reader=reader, offset=off, length=ln, total=total, got=x.bin[:80], expected=exp[:80])
        # and it serialises to the padded bytes again
        require(x.tobytes() == ref_bytes(exp), 'window object does not serialise to its own zero-padded bytes', reader=reader, offset=off, length=ln)
        del x
    nt = (o % 8 != 0) or (len(exp) % 8 != 0)
    return {'nt': nt, 'labels': [reader, 'off%%8=%d' % (o % 8), 'aligned-end' if (o + len(exp)) % 8 == 0 else 'mid-byte-end', lenbucket(total)]}


# ------------------------------------------------------------------------------------------- large Arrays

ARRAY_BIG_DTYPES = ['uint3', 'int5', 'uint7', 'uint9', 'int11', 'uint13', 'e3m2mxfp', 'hex12', 'bin7', 'uint8', 'floatle32', 'uint24']


def enum_array_big(tier):
    sizes = [(1 << 20) + 5, (2 << 20) + 1] if tier == 'quick' else [(1 << 20) - 1, (1 << 20) + 5, (2 << 20) + 1, (8 << 20) + 3, (9 << 20) + 7, (16 << 20) + 11]
    for dt in ARRAY_BIG_DTYPES:
        for nbytes in sizes:
            yield {'dtype': dt, 'nbytes': nbytes}


def run_array_big(case):
    """Array.tofile / tobytes of one to a few MiB with item sizes that do not divide a power-of-two block: the bytes of the data, in order, padded once at the end"""
    bs = bitstring_module()
    nbytes = case['nbytes']
    data = (bytes(range(3, 254)) * (nbytes // 251 + 1))[:nbytes]
    a = bs.Array(case['dtype'], data)
    require(len(a.data) == 8 * nbytes, 'Array built from bytes does not hold exactly those bytes', got=len(a.data), expected=8 * nbytes)
    f = io.BytesIO()
    a.tofile(f)
    v = f.getvalue()
    require(len(v) == nbytes, 'Array.tofile() of a large Array wrote the wrong number of bytes (padding inside the data?)', got=len(v), expected=nbytes, case=case)
    require(v == data, 'Array.tofile() of a large Array wrote different bytes', first_difference=next((i for i in range(nbytes) if v[i] != data[i]), None), case=case)
    require(a.tobytes() == data, 'Array.tobytes() of a large Array differs from its data', case=case)
    # with trailing bits: one zero padding at the very end only
    a.data.append('0b101')
    f = io.BytesIO()
    a.tofile(f)
    v = f.getvalue()
    require(v == data + b'\xa0' and a.tobytes() == v, 'Array.tofile()/tobytes() of a large Array with trailing bits is not the data padded once at the end', got_len=len(v), expected_len=nbytes + 1, case=case)
    del v, f, a, data
    return {'nt': True, 'labels': ['array-big', case['dtype']]}


def selftest():
    assert ref_bytes('1') == b'\x80' and ref_bytes('') == b'' and ref_bytes('0000000011') == b'\x00\xc0'
    bs = bitstring_module()
    assert bs.Array('i4', [3, -6, 2, -3, 2, -7]).tobytes() == b':-)'


SUBCHECKS = [
    Sub('C17.tobytes_bytes_tofile', run_write, strategy=write_case, examples={'quick': 6000, 'thorough': 80000}, ambient=('lsb0', 'bytealigned')),
    Sub('C17.tofile_chunk_boundary_hook', run_chunks, enum=enum_chunks,
        enum_exhaustive_note='chunk sizes 8/64/4096 bits (hook) x k in {1,2,3} chunks x offsets -9..9 bits around k*chunk'),
    Sub('C17.tofile_real_chunk_boundary', run_real, enum=enum_real, enum_exhaustive_note='data just above the real 100 MiB chunk size (quick: 1 size; thorough: 5 sizes incl. 2 chunks) without the hook'),
    Sub('C17.array_tofile_large', run_array_big, enum=enum_array_big,
        enum_exhaustive_note='12 item dtypes x data of 1-2 MiB (thorough: up to 16 MiB) + a few bytes, with and without trailing bits; not exhaustive over sizes'),
    Sub('C17.readback_window', run_read, strategy=read_case, examples={'quick': 8000, 'thorough': 120000}, ambient=('lsb0', 'bytealigned')),
]
