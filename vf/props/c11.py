"""C11 - 8-bit, micro-scaling and bfloat codecs decode and round exactly as specified.

Oracle: an exact model of each format written from its definition (sign / biased exponent / mantissa / specials) with
fractions.Fraction for the decoded values; encoding = IEEE half rounding (struct 'e', stdlib) followed by round-to-nearest,
ties-to-even-code among the representable values with the documented overflow rule."""
import math
import struct
from fractions import Fraction

from hypothesis import strategies as st

from vf.engine import Sub, require, bitstring_module
from vf.common import cls_st, mk, attempt, is_raised, cls_of, CLASSES

RULE = ("decode_all_codes and encode_all_half are complete enumerations: every code of every format; every one of the 65536 half-precision bit patterns "
        "x 7 rounding formats x mxfp_overflow in {saturate, overflow}. Generated on top: float64 inputs not representable in half precision (midpoints of "
        "adjacent half values +-1 double ulp, around 65504/65520, double subnormals, +-inf, NaN, -0.0, ints), scaled dtypes, all creation/reading routes. "
        "Non-trivial = (format, mode, input) whose expected code is not 0; distinct = SHA-1 of the case (enumerated blocks count every input).")
ASSUMPTIONS = ["IEEE half rounding is taken from struct.pack('>e') of the standard library (inputs it refuses as too large count as overflow to +-inf)",
               "double rounding via half precision is the documented behaviour and is what the model does", "which NaN code is produced is pinned by the shipped tables/docs (0x80 for p3/p4binary, 0xff for e4m3/e5m2/e8m0)"]

NAN, PINF, NINF = 'nan', 'inf', '-inf'


class Fmt:
    def __init__(self, name, bits, E, M, bias, kind):
        self.name, self.bits, self.E, self.M, self.bias, self.kind = name, bits, E, M, bias, kind
        self.half = 1 << (bits - 1)
        self.table = [self._decode(c) for c in range(1 << bits)]
        # positive finite magnitudes in ascending code order
        self.pos = [(c, self.table[c]) for c in range(self.half) if isinstance(self.table[c], Fraction)]
        self.max_code = self.pos[-1][0]
        self.pos_f = [float(v) for _, v in self.pos]
        for (c, v), f in zip(self.pos, self.pos_f):
            assert Fraction(f) == v

    def raw(self, mag_code):
        e = mag_code >> self.M
        m = mag_code & ((1 << self.M) - 1)
        if e == 0:
            return Fraction(m, 1 << self.M) * Fraction(2) ** (1 - self.bias)
        return (1 + Fraction(m, 1 << self.M)) * Fraction(2) ** (e - self.bias)

    def _decode(self, code):
        sign = code >> (self.bits - 1)
        mag = code & (self.half - 1)
        k = self.kind
        if k == 'p3109':
            if code == 0x80:
                return NAN
            if mag == 0x7f:
                return NINF if sign else PINF
        elif k == 'e5m2':
            if mag == 0x7c:
                return NINF if sign else PINF
            if mag > 0x7c:
                return NAN
        elif k == 'e4m3':
            if mag == 0x7f:
                return NAN
        v = self.raw(mag)
        return -v if sign else v

    def neg_zero(self):
        return self.kind != 'p3109'

    def decode_float(self, code):
        v = self.table[code]
        if v == NAN:
            return math.nan
        if v == PINF:
            return math.inf
        if v == NINF:
            return -math.inf
        f = float(v)
        if v == 0 and code >= self.half and self.neg_zero():
            return -0.0
        return f

    def encode(self, x, mode='saturate'):
        """-> code, or 'ValueError'"""
        if math.isnan(x):
            return {'p3109': 0x80, 'e5m2': 0xff, 'e4m3': 0xff}.get(self.kind, 'ValueError')
        try:
            h = struct.unpack('>e', struct.pack('>e', x))[0]
        except (OverflowError, struct.error):
            h = math.copysign(math.inf, x)
        neg = math.copysign(1.0, h) < 0
        a = abs(h)
        over = False
        if math.isinf(a):
            over = True
        else:
            # round to nearest among the finite magnitudes, ties to the even code
            import bisect
            i = bisect.bisect_left(self.pos_f, a)
            if i < len(self.pos_f) and self.pos_f[i] == a:
                code = self.pos[i][0]
            elif i == len(self.pos_f):
                # above the largest finite value
                if self.bits < 8:
                    code = self.max_code
                else:
                    succ = float(self.raw(self.max_code + 1))
                    mid = (self.pos_f[-1] + succ) / 2
                    if a > mid or (a == mid and (self.max_code + 1) % 2 == 0):
                        over = True
                    else:
                        code = self.max_code
            else:
                lo, hi = self.pos_f[i - 1], self.pos_f[i]
                d1, d2 = a - lo, hi - a
                if d1 < d2:
                    code = self.pos[i - 1][0]
                elif d2 < d1:
                    code = self.pos[i][0]
                else:
                    code = self.pos[i - 1][0] if self.pos[i - 1][0] % 2 == 0 else self.pos[i][0]
        if over:
            k = self.kind
            if k == 'p3109':
                return 0xff if neg else 0x7f
            if k == 'e5m2':
                if mode == 'saturate':
                    return (0x80 if neg else 0) | self.max_code
                return 0xfc if neg else 0x7c
            if k == 'e4m3':
                if mode == 'saturate':
                    return (0x80 if neg else 0) | self.max_code
                return 0xff
            return (self.half if neg else 0) | self.max_code
        if neg:
            if code == 0 and not self.neg_zero():
                return 0
            return self.half | code
        return code


FORMATS = {
    'p3binary': Fmt('p3binary', 8, 5, 2, 16, 'p3109'),
    'p4binary': Fmt('p4binary', 8, 4, 3, 8, 'p3109'),
    'e5m2mxfp': Fmt('e5m2mxfp', 8, 5, 2, 15, 'e5m2'),
    'e4m3mxfp': Fmt('e4m3mxfp', 8, 4, 3, 7, 'e4m3'),
    'e3m2mxfp': Fmt('e3m2mxfp', 6, 3, 2, 3, 'plain'),
    'e2m3mxfp': Fmt('e2m3mxfp', 6, 2, 3, 1, 'plain'),
    'e2m1mxfp': Fmt('e2m1mxfp', 4, 2, 1, 1, 'plain'),
}
MODES = ['saturate', 'overflow']


def half_of(i):
    return struct.unpack('>e', i.to_bytes(2, 'big'))[0]


def same_float(a, b):
    if math.isnan(a) or math.isnan(b):
        return math.isnan(a) and math.isnan(b)
    return a == b and math.copysign(1, a) == math.copysign(1, b)


# e8m0 / mxint / bfloat models
def e8m0_decode(code):
    return math.nan if code == 255 else float(Fraction(2) ** (code - 127))


def e8m0_encode(x):
    if math.isnan(x):
        return 255
    if x <= 0 or math.isinf(x):
        return 'ValueError'
    m, e = math.frexp(x)   # x = m * 2**e, 0.5 <= m < 1
    if m != 0.5 or not -127 <= e - 1 <= 127:
        return 'ValueError'
    return e - 1 + 127


def mxint_decode(code):
    v = code - 256 if code >= 128 else code
    return float(Fraction(v, 64))


def mxint_encode(x):
    if math.isnan(x):
        return 'ValueError'
    if math.isinf(x):
        return 127 if x > 0 else 128
    q = Fraction(x) * 64
    fl = q.numerator // q.denominator
    r = q - fl
    if r > Fraction(1, 2) or (r == Fraction(1, 2) and fl % 2):
        fl += 1
    fl = max(-128, min(127, fl))
    return fl & 0xff


def bfloat_encode(x):
    try:
        b = struct.pack('>f', x)
    except OverflowError:
        b = struct.pack('>f', math.copysign(math.inf, x))
    return int.from_bytes(b[:2], 'big')


def bfloat_decode(code):
    return struct.unpack('>f', code.to_bytes(2, 'big') + b'\x00\x00')[0]


def selftest():
    p4 = FORMATS['p4binary']
    # values from the table printed in doc/exotic_floats.rst
    doc = {0: 0.0, 1: 0.0009765625, 8: 0.0078125, 16: 0.015625, 64: 1.0, 65: 1.125, 126: 224.0, 129: -0.0009765625, 254: -224.0}
    for c, v in doc.items():
        assert p4.decode_float(c) == v, (c, v, p4.decode_float(c))
    assert p4.table[127] == PINF and p4.table[128] == NAN and p4.table[255] == NINF
    assert float(FORMATS['e5m2mxfp'].table[0x7b]) == 57344.0 and float(FORMATS['e4m3mxfp'].table[0x7e]) == 448.0
    assert float(FORMATS['e3m2mxfp'].table[0b011111]) == 28.0 and float(FORMATS['e2m3mxfp'].table[0b011111]) == 7.5 and float(FORMATS['e2m1mxfp'].table[0b0111]) == 6.0
    assert float(FORMATS['p3binary'].table[0x7e]) == 49152.0
    assert e8m0_encode(1.0) == 127 and e8m0_encode(3.0) == 'ValueError' and e8m0_decode(0) == 2.0 ** -127
    assert mxint_encode(1.0) == 64 and mxint_encode(-2.0) == 128 and mxint_encode(5.0) == 127 and mxint_decode(0x7f) == 1.984375
    assert mxint_encode(0.5 / 64) == 0 and mxint_encode(1.5 / 64) == 2 and mxint_encode(-0.5 / 64) == 0 and mxint_encode(-1.5 / 64) == 0xfe
    assert bfloat_encode(4.5e23) == 0x66be


# ---------------------------------------------------------------------------------------------
# routes

def build_code(bs, name, x, route, clsname='Bits'):
    c = cls_of(clsname)
    if route == 'kw':
        return c(**{name: x})
    if route == 'token':
        return c(f'{name}={x!r}')
    if route == 'setattr':
        a = bs.BitArray('0b1')
        setattr(a, name, x)
        return a
    if route == 'dtype_build':
        return bs.Dtype(name).build(x)
    if route == 'pack':
        return bs.pack(name, x)
    if route == 'array':
        return bs.Array(name, [x]).data
    raise AssertionError(route)


ROUTES = ['kw', 'token', 'setattr', 'dtype_build', 'pack', 'array']


def read_value(bs, name, obj, route):
    if route == 'prop':
        return getattr(obj, name)
    if route == 'dtype_parse':
        return bs.Dtype(name).parse(obj)
    if route == 'unpack':
        return obj.unpack(name)[0]
    if route == 'read':
        return bs.ConstBitStream(obj).read(name)
    if route == 'array':
        return bs.Array(name, obj)[0]
    raise AssertionError(route)


READS = ['prop', 'dtype_parse', 'unpack', 'read', 'array']


# ---------------------------------------------------------------------------------------------
# exhaustive decode

def enum_decode(tier):
    for name, f in FORMATS.items():
        yield {'fmt': name}
    yield {'fmt': 'e8m0mxfp'}
    yield {'fmt': 'mxint'}
    for blk in range(256 if tier == 'thorough' else 0):
        yield {'fmt': 'bfloat', 'block': blk}
    if tier == 'quick':
        for blk in range(0, 256, 8):
            yield {'fmt': 'bfloat', 'block': blk}
        for blk in (0x7f, 0x80, 0xff, 0x00, 0x3f, 0xbf):
            yield {'fmt': 'bfloat', 'block': blk}


def run_decode(case):
    bs = bitstring_module()
    name = case['fmt']
    n = 0
    if name == 'bfloat':
        blk = case['block']
        for lo in range(256):
            code = (blk << 8) | lo
            bits = format(code, '016b')
            exp = bfloat_decode(code)
            for nm, o in (('bfloat', bs.Bits(bin=bits)), ('bfloatbe', bs.Bits(bin=bits)), ('bfloatle', bs.Bits(bin=bits[8:] + bits[:8]))):
                got = getattr(o, nm)
                require(same_float(got, exp), f'{nm} decodes a code to the wrong value', code=hex(code), got=got, expected=exp)
            if not math.isnan(exp):
                require(bs.Bits(bfloat=exp).uint == code, 'bfloat re-encode is not the identity', code=hex(code))
            n += 1
        return {'nt': True, 'labels': ['bfloat'], 'evals': 256}
    if name in FORMATS:
        f = FORMATS[name]
        nbits, dec = f.bits, f.decode_float
    else:
        nbits = 8
        dec = e8m0_decode if name == 'e8m0mxfp' else mxint_decode
    for code in range(1 << nbits):
        exp = dec(code)
        o = mk(CLASSES[code % 4], format(code, f'0{nbits}b'))
        route = READS[code % len(READS)]
        for r in ('prop', route):
            got = attempt(read_value, bs, name, o, r)
            require(not is_raised(got) and isinstance(got, float) and same_float(got, exp), f'{name} code decodes to the wrong value', code=hex(code), route=r, got=got, expected=exp)
        # decode then re-encode returns the code (NaN excepted; e5m2 infinities under saturate excepted)
        if not math.isnan(exp):
            for mode in MODES:
                bs.options.mxfp_overflow = mode
                if name == 'e5m2mxfp' and math.isinf(exp) and mode == 'saturate':
                    continue
                back = bs.Bits(**{name: exp}).uint
                require(back == code, 're-encoding a decoded code does not return that code', fmt=name, code=hex(code), value=exp, got=hex(back), mode=mode)
            bs.options.mxfp_overflow = 'saturate'
    return {'nt': True, 'labels': [name], 'evals': 1 << nbits}


# ---------------------------------------------------------------------------------------------
# exhaustive encode of every half-precision value

def enum_encode(tier):
    for name in FORMATS:
        for mode in MODES:
            for blk in range(256):
                yield {'fmt': name, 'mode': mode, 'block': blk}


def run_encode_half(case):
    bs = bitstring_module()
    name, mode, blk = case['fmt'], case['mode'], case['block']
    f = FORMATS[name]
    bs.options.mxfp_overflow = mode
    nz = 0
    for lo in range(256):
        i = (blk << 8) | lo
        x = half_of(i)
        exp = f.encode(x, mode)
        route = 'kw' if lo % 16 else ROUTES[(lo // 16) % len(ROUTES)]
        got = attempt(build_code, bs, name, x, route)
        if exp == 'ValueError':
            require(is_raised(got, ValueError), 'NaN must be rejected by a format without a NaN', fmt=name, got=got)
            continue
        require(not is_raised(got), 'encoding a half-precision value raised', fmt=name, x=x, got=got, route=route)
        require(len(got) == f.bits and got.uint == exp, 'float encodes to the wrong code (nearest, ties-to-even, documented overflow rule)', fmt=name, mode=mode,
                half=hex(i), x=x, got=hex(got.uint), expected=hex(exp), route=route)
        nz += exp != 0
    return {'nt': nz > 0, 'labels': [name, mode], 'evals': 256}


# ---------------------------------------------------------------------------------------------
# generated: float64 inputs, scaled dtypes, other formats

@st.composite
def f64_st(draw):
    k = draw(st.integers(0, 9))
    if k <= 3:
        # neighbourhood of a midpoint between adjacent half values
        i = draw(st.integers(0, 0x7bfe))
        a, b = half_of(i), half_of(i + 1)
        mid = (a + b) / 2
        x = draw(st.sampled_from([mid, math.nextafter(mid, math.inf), math.nextafter(mid, -math.inf), a, b, math.nextafter(a, math.inf), math.nextafter(b, -math.inf)]))
        return -x if draw(st.booleans()) else x
    if k == 4:
        return draw(st.sampled_from([65504.0, 65519.99, 65520.0, 65520.01, 65536.0, 1e5, 1e30, 1e300, -65504.0, -65520.0, -1e300, math.inf, -math.inf, math.nan, 0.0, -0.0,
                                     5e-324, -5e-324, 2.0 ** -25, 2.0 ** -24, 2.0 ** -24 * 1.5, 2.0 ** -25 * 1.0000001, -2.0 ** -25]))
    if k == 5:
        return float(draw(st.integers(-500, 500)))
    if k == 6:
        f = FORMATS[draw(st.sampled_from(sorted(FORMATS)))]
        j = draw(st.integers(0, len(f.pos_f) - 2))
        a, b = f.pos_f[j], f.pos_f[j + 1]
        mid = (a + b) / 2
        x = draw(st.sampled_from([mid, math.nextafter(mid, math.inf), math.nextafter(mid, -math.inf), mid * (1 + 2 ** -11), mid * (1 - 2 ** -11), f.pos_f[-1] * 1.03, f.pos_f[-1] * 1.07, f.pos_f[-1] * 1.08]))
        return -x if draw(st.booleans()) else x
    return draw(st.floats(allow_nan=False, allow_infinity=False, width=64, min_value=-1e6, max_value=1e6))


@st.composite
def f64_case(draw, tier):
    x = draw(f64_st())
    return {'fmt': draw(st.sampled_from(sorted(FORMATS))), 'mode': draw(st.sampled_from(MODES)), 'x': x.hex() if not math.isnan(x) else 'nan', 'route': draw(st.sampled_from(ROUTES)),
            'cls': draw(cls_st), 'as_int': draw(st.integers(0, 9)) == 0}


def fx(s):
    return math.nan if s == 'nan' else float.fromhex(s)


def run_f64(case):
    bs = bitstring_module()
    name, mode, x = case['fmt'], case['mode'], fx(case['x'])
    f = FORMATS[name]
    bs.options.mxfp_overflow = mode
    arg = x
    if case['as_int'] and x == int(x) if not (math.isnan(x) or math.isinf(x)) else False:
        arg = int(x)
    exp = f.encode(float(arg), mode)
    got = attempt(build_code, bs, name, arg, case['route'], case['cls'])
    if exp == 'ValueError':
        require(is_raised(got, ValueError), 'NaN must be rejected by a format without a NaN', fmt=name, got=got)
        return {'nt': True, 'labels': [name, 'nan-rejected']}
    require(not is_raised(got), 'encoding raised', fmt=name, x=x, got=got, route=case['route'])
    require(len(got) == f.bits and got.uint == exp, 'float64 input encodes to the wrong code', fmt=name, mode=mode, x=x, got=hex(got.uint), expected=hex(exp), route=case['route'])
    return {'nt': exp != 0, 'labels': [name, mode, case['route']]}


@st.composite
def other_case(draw, tier):
    kind = draw(st.sampled_from(['e8m0mxfp', 'mxint', 'bfloat', 'bfloatle']))
    k = draw(st.integers(0, 5))
    if kind == 'e8m0mxfp':
        e = draw(st.integers(-130, 130))
        x = draw(st.sampled_from([2.0 ** max(-1000, min(1000, e)), 2.0 ** max(-1000, min(1000, e)) * 1.5, 3.0, 0.0, -1.0, -(2.0 ** max(-127, min(127, e))), -0.0, -math.inf, math.inf, math.nan, 2.0 ** -127, 2.0 ** 127, 2.0 ** 128, 2.0 ** -128,
                                  math.nextafter(2.0 ** max(-100, min(100, e)), math.inf)]))
    elif kind == 'mxint':
        q = draw(st.integers(-140, 140))
        x = draw(st.sampled_from([q / 64, (q + 0.5) / 64, (q + 0.5) / 64 + 1e-12, (q + 0.5) / 64 - 1e-12, (q + 0.25) / 64, 1.984375, 1.99, 2.0, -2.0, -2.01, math.inf, -math.inf, math.nan, -0.0, 1e300, 5e-324]))
    else:
        x = draw(f64_st()) if k else struct.unpack('>f', struct.pack('>I', draw(st.integers(0, 2 ** 32 - 1))))[0]
    return {'kind': kind, 'x': x.hex() if not math.isnan(x) else 'nan', 'route': draw(st.sampled_from(ROUTES)), 'read': draw(st.sampled_from(READS)), 'cls': draw(cls_st)}


def run_other(case):
    bs = bitstring_module()
    kind, x = case['kind'], fx(case['x'])
    if kind == 'e8m0mxfp':
        exp = e8m0_encode(x)
        dec = e8m0_decode
    elif kind == 'mxint':
        exp = mxint_encode(x)
        dec = mxint_decode
    else:
        exp = bfloat_encode(x)
        dec = bfloat_decode
        if kind == 'bfloatle':
            exp = ((exp & 0xff) << 8) | (exp >> 8)
            dec = lambda c: bfloat_decode(((c & 0xff) << 8) | (c >> 8))
    got = attempt(build_code, bs, kind, x, case['route'], case['cls'])
    if exp == 'ValueError':
        require(is_raised(got, ValueError), f'{kind}: a value that has no exact/any representation must raise ValueError', x=x, got=got if is_raised(got) else hex(got.uint))
        return {'nt': True, 'labels': [kind, 'rejected']}
    nb = 16 if kind.startswith('bfloat') else 8
    require(not is_raised(got), f'{kind}: encoding raised', x=x, got=got, route=case['route'])
    require(len(got) == nb and got.uint == exp, f'{kind}: wrong code', x=x, got=hex(got.uint), expected=hex(exp), route=case['route'])
    back = attempt(read_value, bs, kind, bs.Bits(got), case['read'])
    require(not is_raised(back) and same_float(back, dec(exp)), f'{kind}: decode differs', got=back, expected=dec(exp))
    return {'nt': exp != 0, 'labels': [kind, case['route']]}


def enum_other(tier):
    """complete boundary grids: mxint at every multiple of 1/256 in [-2.25, 2.25] (all ties and quarter points, the saturation edges) and one ulp either side;
    e8m0 at every power of two 2**-135 .. 2**135, its float neighbours, 1.5x, the negative, plus the specials"""
    k = 0
    for q4 in range(-576, 577):
        base = q4 / 256.0
        for x in (base, math.nextafter(base, math.inf), math.nextafter(base, -math.inf)):
            k += 1
            yield {'kind': 'mxint', 'x': x.hex(), 'route': ROUTES[k % len(ROUTES)], 'read': READS[k % len(READS)], 'cls': 'Bits'}
    for e in range(-135, 136):
        p2 = math.ldexp(1.0, e)
        for x in (p2, math.nextafter(p2, math.inf), math.nextafter(p2, 0.0), p2 * 1.5, -p2):
            k += 1
            yield {'kind': 'e8m0mxfp', 'x': x.hex(), 'route': ROUTES[k % len(ROUTES)], 'read': READS[k % len(READS)], 'cls': 'Bits'}
    for kind in ('mxint', 'e8m0mxfp'):
        for x in (0.0, -0.0, math.inf, -math.inf, 5e-324, 1e300, -1e300):
            for route in ROUTES:
                yield {'kind': kind, 'x': x.hex(), 'route': route, 'read': 'prop', 'cls': 'BitArray'}


@st.composite
def scaled_case(draw, tier):
    name = draw(st.sampled_from(sorted(FORMATS) + ['mxint', 'bfloat', 'float16', 'e8m0mxfp', 'mxint', 'e8m0mxfp']))
    scale = draw(st.sampled_from([2.0 ** k for k in (-8, -3, -1, 1, 2, 6, 10, 20)] + [2 ** 3, 2 ** 6, 3, 0.1, -2, 1, 1.0, 0.5, 49, 103, 7, 0.3, 1e-3, 10, 12345]))
    x = draw(f64_st())
    if draw(st.booleans()):
        # a value that is exactly scale * (a representable value or an exact rounding tie), so that value / scale is exact
        if name == 'mxint':
            v = draw(st.sampled_from([(draw(st.integers(-128, 127)) + 0.5) / 64, draw(st.integers(-128, 127)) / 64]))
        elif name == 'e8m0mxfp':
            v = 2.0 ** draw(st.integers(-20, 20))
        elif name in FORMATS:
            f = FORMATS[name]
            j = draw(st.integers(0, len(f.pos_f) - 2))
            v = draw(st.sampled_from([f.pos_f[j], (f.pos_f[j] + f.pos_f[j + 1]) / 2]))
        else:
            v = float(draw(st.integers(-64, 64))) / 8
        x = float(scale) * v
    return {'fmt': name, 'scale': scale, 'x': x.hex() if not math.isnan(x) else 'nan', 'code': draw(st.integers(0, 65535)), 'mode': draw(st.sampled_from(MODES)),
            'route': draw(st.sampled_from(['dtype_build', 'array', 'array_set']))}


def run_scaled(case):
    bs = bitstring_module()
    name, scale, x = case['fmt'], case['scale'], fx(case['x'])
    bs.options.mxfp_overflow = case['mode']
    d = bs.Dtype(name, scale=scale)
    if name in FORMATS:
        f = FORMATS[name]
        nb, dec, enc = f.bits, f.decode_float, (lambda v: f.encode(v, case['mode']))
    elif name == 'mxint':
        nb, dec, enc = 8, mxint_decode, mxint_encode
    elif name == 'bfloat':
        nb, dec, enc = 16, bfloat_decode, bfloat_encode
    elif name == 'e8m0mxfp':
        nb, dec, enc = 8, e8m0_decode, e8m0_encode
    else:
        nb = 16
        dec = half_of

        def enc(v):
            try:
                return int.from_bytes(struct.pack('>e', v), 'big')
            except (OverflowError, struct.error):
                return int.from_bytes(struct.pack('>e', math.copysign(math.inf, v)), 'big')
    code = case['code'] % (1 << nb)
    o = bs.Bits(uint=code, length=nb)
    got = d.parse(o)
    exp = dec(code) * scale
    require(same_float(float(got), float(exp)), 'a Dtype scale must multiply the decoded value', fmt=name, scale=scale, code=hex(code), got=got, expected=exp)
    arr = bs.Array(d, o)
    require(same_float(float(arr[0]), float(exp)), 'scaled Array item differs', got=arr[0], expected=exp)
    # the same data under this scale, no scale and another scale, one after the other, read back in bulk: each Array decodes with its own scale
    code2 = (code * 7 + 3) % (1 << nb)
    two = o + bs.Bits(uint=code2, length=nb)
    for sc in (scale, None, 4 if scale != 4 else 8, scale):
        dd = bs.Dtype(name, scale=sc) if sc is not None else bs.Dtype(name)
        a2 = bs.Array(dd, two)
        want = [dec(code) * (sc if sc is not None else 1), dec(code2) * (sc if sc is not None else 1)]
        st2 = bs.ConstBitStream(two)
        for how, got2 in (('tolist', a2.tolist()), ('iteration', list(a2)), ('items', [a2[0], a2[1]]), ('unpack([dtype, dtype])', two.unpack([dd, dd])),
                          ('peeklist([dtype, dtype])', st2.peeklist([dd, dd])), ('readlist([dtype, dtype])', st2.readlist([dd, dd])), ('read(dtype) x2', [bs.ConstBitStream(two).read(dd), st2.peek(dd) if False else a2[1]])):
            require(len(got2) == 2 and all(same_float(float(g), float(w)) for g, w in zip(got2, want)), f'Array {how} does not apply the scale of its own dtype', fmt=name, scale=sc,
                    got=got2, expected=want)
    # encoding divides by the scale first
    if not math.isnan(x):
        ee = enc(x / scale)
        if case['route'] == 'dtype_build':
            b = attempt(lambda: d.build(x))
        elif case['route'] == 'array':
            b = attempt(lambda: bs.Array(d, [x]).data)
        else:
            def f2():
                a = bs.Array(d, [x, x])
                a[0] = x
                del a[1]
                return a.data
            b = attempt(f2)
        if ee == 'ValueError':
            require(is_raised(b, ValueError), 'scaled encode should have been rejected', got=b)
        else:
            require(not is_raised(b) and b.uint == ee, 'a Dtype scale must divide the value before encoding', fmt=name, scale=scale, x=x, got=b if is_raised(b) else hex(b.uint), expected=hex(ee))
    return {'nt': code != 0, 'labels': [name, 'scale=%s' % scale]}


# ------------------------------------------------------------------------------------------- encoders in a history

@st.composite
def hist_case(draw, tier):
    """a few values encoded again and again in the 8-bit-and-smaller formats through every route; mutable results are edited in place in between"""
    vals = draw(st.lists(st.sampled_from([0.0, 1.0, -1.0, 0.5, 1.5, 2.0, 3.0, 6.0, 1e9, -1e9, 100.0, 448.0, 0.25, -0.0, 1.984375, 64.0]), min_size=1, max_size=3))
    steps = []
    for _ in range(draw(st.integers(2, 10))):
        steps.append([draw(st.sampled_from(sorted(FORMATS) + ['mxint'])), draw(st.sampled_from(vals)).hex(), draw(st.sampled_from(ROUTES + ['setattr', 'setattr'])),
                      draw(st.sampled_from(['invert', 'append', 'clear', 'set1', 'none', 'reverse']))])
    return {'steps': steps, 'mode': draw(st.sampled_from(MODES))}


def run_hist(case):
    bs = bitstring_module()
    bs.options.mxfp_overflow = case['mode']
    edited = False
    keep = []
    for name, xh, route, edit in case['steps']:
        x = float.fromhex(xh)
        exp = mxint_encode(x) if name == 'mxint' else FORMATS[name].encode(x, case['mode'])
        nb = 8 if name == 'mxint' else FORMATS[name].bits
        got = attempt(build_code, bs, name, x, route, 'BitArray')
        if exp == 'ValueError':
            require(is_raised(got, ValueError), 'a value without a code must be rejected', fmt=name, x=x, got=got)
            continue
        require(not is_raised(got) and len(got) == nb and got.uint == exp, ('the code of a value changed after an earlier result was edited in place' if edited else 'wrong code'),
                fmt=name, x=x, route=route, got=got if is_raised(got) else got.bin, expected=format(exp, f'0{nb}b'), steps=case['steps'][:10])
        if isinstance(got, bs.BitArray) and edit != 'none':
            if edit == 'invert':
                got.invert()
            elif edit == 'append':
                got.append('0b1')
            elif edit == 'clear':
                got.clear()
            elif edit == 'set1':
                got.set(1)
            elif edit == 'reverse':
                got.reverse()
            edited = True
        keep.append(got)
    return {'nt': edited and len(case['steps']) >= 3, 'labels': sorted({s[2] for s in case['steps']})}


# ------------------------------------------------------------------------------------------- scale='auto'

AUTO_MAX = {'mxint': 1.984375, 'e2m1mxfp': 6.0, 'e2m3mxfp': 7.5, 'e3m2mxfp': 28.0, 'e4m3mxfp': 448.0, 'e5m2mxfp': 57344.0, 'p4binary': 224.0, 'p3binary': 49152.0, 'float16': 65504.0}


@st.composite
def auto_case(draw, tier):
    name = draw(st.sampled_from(sorted(AUTO_MAX) + ['bfloat', 'uint8', 'float32', 'e8m0mxfp']))
    k = draw(st.integers(0, 5))
    if k == 0:
        vals = [0.0] * draw(st.integers(0, 3))
    else:
        e = draw(st.sampled_from([-140, -130, -127, -126, -20, -3, -1, 0, 1, 2, 5, 9, 15, 16, 20, 100, 126, 127, 128, 130, 140]) | st.integers(-30, 30))
        top = math.ldexp(draw(st.sampled_from([1.0, 1.0, 1.5, 1.75, 1.9999999, 1.0000001])), e)
        vals = [top * draw(st.sampled_from([1.0, -1.0]))] + [top * draw(st.sampled_from([0.0, 0.5, -0.25, 0.1, 0.75, -0.99, 1.0, 0.3])) for _ in range(draw(st.integers(0, 5)))]
        vals = draw(st.permutations(vals))
    return {'fmt': name, 'vals': [v.hex() for v in vals], 'mode': draw(st.sampled_from(MODES)), 'init': draw(st.sampled_from(['list', 'tuple', 'list', 'list', 'int', 'bytes', 'bits']))}


def run_auto(case):
    """Array(Dtype(fmt, scale='auto'), values): the documented rule picks a power-of-two scale from the largest magnitude and the largest value of the
    format; whatever scale it reports, the items must be the values divided by it, encoded, and read back multiplied by it"""
    bs = bitstring_module()
    name = case['fmt']
    vals = [float.fromhex(v) for v in case['vals']]
    bs.options.mxfp_overflow = case['mode']
    d = attempt(lambda: bs.Dtype(name, scale='auto'))
    require(not is_raised(d), "Dtype(fmt, scale='auto') raised", got=d, fmt=name)
    init = {'list': vals, 'tuple': tuple(vals), 'gen': (v for v in vals), 'array_f64': None, 'int': 3, 'bytes': b'\x01\x02', 'bits': bs.Bits('0x0102')}[case['init']]
    if case['init'] == 'array_f64':
        init = bs.Array('float64', vals)
    a = attempt(bs.Array, d, init)
    if case['init'] in ('int', 'bytes', 'bits'):
        require(is_raised(a, TypeError, ValueError), "an 'auto' scale needs an iterable of values: anything else must be rejected", got=a)
        return {'nt': False, 'labels': ['not-iterable']}
    if name not in AUTO_MAX or not vals:
        require(is_raised(a, ValueError), "scale='auto' is documented for the 8-bit-and-smaller float formats and float16 only, and needs at least one value", got=a, fmt=name, n=len(vals))
        return {'nt': False, 'labels': ['unsupported' if vals else 'empty']}
    require(not is_raised(a), "Array with scale='auto' raised", got=a, fmt=name, vals=vals[:4])
    sc = a.dtype.scale
    m = max(abs(v) for v in vals)
    if m == 0:
        require(sc == 1, 'all-zero data: the documented scale is 1', got=sc)
    else:
        k = math.floor(math.log2(m)) - math.floor(math.log2(AUTO_MAX[name]))
        k = max(-127, min(127, k))
        require(sc == 2.0 ** k, 'auto scale is not 2**(floor(log2(max|x|)) - floor(log2(largest value of the format))) clamped to the e8m0 range', got=sc, expected=2.0 ** k, fmt=name, max=m)
    # the items are the values encoded under that scale, and they read back multiplied by it
    if name in FORMATS:
        f = FORMATS[name]
        enc, dec = (lambda v: f.encode(v, case['mode'])), f.decode_float
    elif name == 'mxint':
        enc, dec = mxint_encode, mxint_decode
    else:
        dec = half_of

        def enc(v):
            try:
                return int.from_bytes(struct.pack('>e', v), 'big')
            except (OverflowError, struct.error):
                return int.from_bytes(struct.pack('>e', math.copysign(math.inf, v)), 'big')
    nb = a.dtype.bitlength
    codes = [a.data[i * nb:(i + 1) * nb].uint for i in range(len(vals))]
    exp = [enc(v / sc) for v in vals]
    require(codes == exp and len(a) == len(vals), 'items of an auto-scaled Array are not the codes of value / scale', got=[hex(c) for c in codes[:6]], expected=[hex(c) if isinstance(c, int) else c for c in exp[:6]],
            scale=sc, fmt=name)
    back = a.tolist()
    for c, b in zip(codes, back):
        require(same_float(float(b), float(dec(c) * sc)), 'items of an auto-scaled Array do not read back as decoded value * scale', got=b, expected=dec(c) * sc)
    return {'nt': m != 0, 'labels': [name, 'k=%d' % (0 if m == 0 else max(-127, min(127, math.floor(math.log2(m)) - math.floor(math.log2(AUTO_MAX[name])))) // 32 * 32)]}


SUBCHECKS = [
    Sub('C11.decode_all_codes', run_decode, enum=enum_decode,
        enum_exhaustive_note='every code of p3binary, p4binary, e5m2mxfp, e4m3mxfp (256), e3m2mxfp, e2m3mxfp (64), e2m1mxfp (16), e8m0mxfp, mxint (256) incl. the re-encode identity '
                             'under both overflow modes; bfloat: all 65536 codes in thorough, 38 blocks of 256 in quick'),
    Sub('C11.encode_all_half', run_encode_half, enum=enum_encode,
        enum_exhaustive_note='all 65536 half-precision bit patterns x 7 formats x mxfp_overflow in {saturate, overflow} (both tiers)'),
    Sub('C11.encode_float64_path', run_f64, strategy=f64_case, examples={'quick': 10000, 'thorough': 200000}, ambient=('bytealigned', 'lsb0')),
    Sub('C11.e8m0_mxint_bfloat', run_other, strategy=other_case, examples={'quick': 8000, 'thorough': 100000}, ambient=('bytealigned', 'lsb0')),
    Sub('C11.mxint_e8m0_grid', run_other, enum=enum_other,
        enum_exhaustive_note='mxint: every multiple of 1/256 in [-2.25, 2.25] and its two float neighbours (all rounding ties, quarter points and both saturation edges); '
                             'e8m0: every power of two 2**-135..2**135, its two float neighbours, 1.5x and its negative; zeros, infinities and extremes through every route'),
    Sub('C11.encode_in_history', run_hist, strategy=hist_case, examples={'quick': 4000, 'thorough': 50000}, ambient=('bytealigned',)),
    Sub('C11.scaled', run_scaled, strategy=scaled_case, examples={'quick': 6000, 'thorough': 80000}, ambient=('bytealigned',)),
    Sub('C11.auto_scale', run_auto, strategy=auto_case, examples={'quick': 4000, 'thorough': 50000}, ambient=('bytealigned',)),
]
