"""C20 - well-typed misuse fails cleanly and never corrupts an object.

A case is a pool of objects plus a list of API calls with arguments of the documented types but adversarial values.
Oracle: (1) the exception class of every call is one of the documented families; (2) afterwards every pool object is
still valid (immutables unchanged, len == len(bin), 0 <= pos <= len, Array len == len(tolist())); (3) the module
options are what the case last set."""
import io
import math
import operator

from hypothesis import strategies as st

from vf.engine import Sub, require, bitstring_module, Violation, in_repo_traceback
from vf.common import bits_st, bits_of_len, attempt, is_raised, CLASSES, MUTABLE, IMMUTABLE, STREAMS, mk, make_promotable, promo_ok, to_bytes, cls_of

RULE = ("case = pool of 2-5 objects (four bitstring classes, Array, Dtype) + 1..25 calls drawn from a table of the whole public surface (constructors with every "
        "keyword, methods, operators via the operator module, properties and their setters, pack, Dtype, Array) with arguments of the documented type and adversarial "
        "values (negative, zero, off-by-one beyond, up to 2^16 for size-like arguments and up to 2^100 for position-like ones, empty, mismatched lengths, malformed "
        "token strings from a mutation grammar with <= 5-digit literals, NaN/inf) under msb0/lsb0 and option values. Non-trivial = a call that raised, or a call "
        "with at least one boundary-valued argument; distinct by SHA-1 of the case. The table is cross-checked against dir() of the classes.")
ASSUMPTIONS = ["AttributeError is allowed only for reading/assigning an attribute (getattr/setattr steps), which is ordinary Python behaviour",
               "MemoryError/OverflowError are outside the 'huge-but-feasible' domain and are counted, not reported", "EOFError from Array.fromfile mirrors array.array.fromfile and is accepted there",
               "arguments of undocumented types are not generated"]

HUGE = [2 ** 31, 2 ** 63, 2 ** 64 + 1, -2 ** 63 - 1, 2 ** 100]
INTS = [-9, -8, -1, 0, 1, 2, 3, 7, 8, 9, 15, 16, 17, 63, 64, 65, 1000, 65536]
SMALL = [-2, -1, 0, 1, 2, 3, 5, 8]

TOKENS = ['uint:8', 'int:7', 'hex:8', 'bin:3', 'oct:6', 'bits:5', 'bytes:1', 'bool', 'float:32', 'floatle:16', 'uintle:16', 'intbe:24', 'ue', 'se', 'uie', 'sie', 'pad:3', 'bfloat',
          'e4m3mxfp', 'p3binary', 'e2m1mxfp', 'mxint', 'e8m0mxfp', 'uint', 'hex', 'bin', 'bytes', 'bits', '<h', '>2B', '=f', '@q', '2*uint:4', '2*(bool, 0b1)', 'uint:n', 'u8', 'i5', 'f64', 'h4', 'b2', 'o3']
VALUE_TOKENS = ['uint:8=5', 'int:4=-3', 'hex=ff', '0xabc', '0b101', '0o17', 'bin=0110', 'float:32=1.5', 'ue=7', 'se=-3', 'bool=True', 'bfloat=2.5', 'e4m3mxfp=1000', 'bytes', 'uint:3=9',
                'uint:0=0', 'hex:6=ab', 'float:20=1', 'uintle:12=1', 'int:8=300', 'oct=9', 'bin=012', 'hex=xyz', '3*(0b1', '0*(0x1)', 'uint:8', '=5', 'uint:8=', ',,', '', '  ', '0x', '0b',
                'pad:2', 'uint:n=3', 'bits:4=0xf', 'nonsense', 'uint8=255, int4=-8', 'e2m1mxfp=nan', 'mxint=nan', 'e8m0mxfp=3']


@st.composite
def mutated_text(draw, pool):
    s = draw(st.sampled_from(pool))
    k = draw(st.integers(0, 5))
    if k <= 1 or not s:
        return s
    i = draw(st.integers(0, len(s) - 1))
    ch = draw(st.sampled_from(list(':=,*()<>@ 0123456789abxo-+._') + ['', '']))
    if k == 2:
        return s[:i] + ch + s[i + 1:]
    if k == 3:
        return s[:i] + ch + s[i:]
    if k == 4:
        return s[:i] + s[i + 1:]
    return s + draw(st.sampled_from([', ' + draw(st.sampled_from(pool)), ',', '=', ':', '*2', ')']))


@st.composite
def arg(draw, t):
    """JSON spec of one argument of documented type t"""
    if t == 'int':
        k = draw(st.integers(0, 9))
        return ['int', draw(st.sampled_from(HUGE)) if k == 0 else draw(st.sampled_from(INTS) | st.integers(-70, 70))]
    if t == 'sizeint':      # allocates: capped at 2**16
        return ['int', draw(st.sampled_from([-1, 0, 1, 2, 3, 8, 64, 1000, 65536]) | st.integers(-3, 40))]
    if t == 'optint':
        return ['none'] if draw(st.integers(0, 2)) == 0 else draw(arg('int'))
    if t == 'bool':
        return ['bool', draw(st.booleans())]
    if t == 'optbool':
        return draw(st.sampled_from([['none'], ['bool', True], ['bool', False]]))
    if t == 'value':
        return draw(st.sampled_from([['bool', True], ['bool', False], ['int', 0], ['int', 1], ['int', 2], ['int', -1], ['str', ''], ['str', 'x'], ['none']]))
    if t == 'bits':
        k = draw(st.integers(0, 11))
        b = draw(bits_st(max_len=24))
        if k == 0:
            return ['self']
        if k == 1:
            return ['pool', draw(st.integers(0, 99))]
        if k == 2:
            return ['str', draw(mutated_text(VALUE_TOKENS))]
        if k <= 5:
            kind = draw(st.sampled_from(['str_bin', 'str_hex', 'bytes', 'bytearray', 'list', 'tuple', 'bitarray', 'memoryview', 'array', 'BytesIO', 'gen']))
            return ['promo', kind, b]
        return ['obj', draw(st.sampled_from(CLASSES)), b]
    if t == 'poolobj':
        return ['pool', draw(st.integers(0, 99))]
    if t == 'bitslist':
        return ['list', [draw(arg('bits')) for _ in range(draw(st.integers(0, 3)))]]
    if t == 'fmt':
        k = draw(st.integers(0, 4))
        if k == 0:
            return ['list', [draw(st.one_of(arg('sizeint'), st.just(['str', draw(mutated_text(TOKENS))]))) for _ in range(draw(st.integers(0, 3)))]]
        return ['str', ', '.join(draw(mutated_text(TOKENS)) for _ in range(draw(st.integers(1, 3))))]
    if t == 'packfmt':
        if draw(st.integers(0, 3)) == 0:
            return ['list', [['str', draw(mutated_text(TOKENS + VALUE_TOKENS))] for _ in range(draw(st.integers(0, 3)))]]
        return ['str', ', '.join(draw(mutated_text(TOKENS + VALUE_TOKENS)) for _ in range(draw(st.integers(1, 3))))]
    if t == 'fmt1':
        k = draw(st.integers(0, 3))
        if k == 0:
            return draw(arg('sizeint'))
        if k == 1:
            return ['dtype', draw(st.sampled_from(['uint', 'hex', 'float', 'bits', 'bool', 'e4m3mxfp', 'ue', 'bytes'])), draw(st.sampled_from([None, 0, 1, 8, 16, 12, 64]))]
        return ['str', draw(mutated_text(TOKENS))]
    if t == 'ppfmt' and draw(st.integers(0, 2)):
        # grammar: 1-3 tokens, any dtype name, optional length (incl. 0 and illegal ones), both spellings
        toks = []
        for _ in range(draw(st.sampled_from([1, 1, 2, 2, 3]))):
            nm = draw(st.sampled_from(['bin', 'hex', 'oct', 'bytes', 'uint', 'int', 'float', 'bits', 'bool', 'ue', 'se', 'bfloat', 'e4m3mxfp', 'uintle', 'pad', 'b', 'h', 'o', 'u', 'i', 'f', 'mxint', 'e2m1mxfp', 'floatle']))
            ln = draw(st.sampled_from([None, None, 0, 1, 3, 4, 6, 8, 12, 16, 32, 64]))
            toks.append(nm if ln is None else (f'{nm}:{ln}' if draw(st.booleans()) else f'{nm}{ln}'))
        return ['str', ', '.join(toks)]
    if t == 'ppfmt':
        return draw(st.sampled_from([['none'], ['str', 'bin'], ['str', 'hex'], ['str', 'bin, hex'], ['str', 'oct6'], ['str', 'hex:0'], ['str', 'uint8'], ['str', 'float32'], ['str', 'bytes'],
                                     ['str', 'ue'], ['str', 'bin, hex, oct'], ['str', 'hex3'], ['str', ''], ['str', 'bits:7'], ['str', 'bool'], ['str', 'i4, u4'], ['str', 'hex8, bin4']]))
    if t == 'sep':
        return ['str', draw(st.sampled_from([' ', '', '_', ' | ', '\n', 'xx']))]
    if t == 'index':
        if draw(st.integers(0, 2)):
            return draw(arg('int'))
        return ['slice', draw(arg('optint')), draw(arg('optint')), draw(st.sampled_from([['none'], ['int', 1], ['int', 2], ['int', -1], ['int', -3], ['int', 0], ['int', 2 ** 63], ['int', -2 ** 63], ['int', 2 ** 63 - 1], ['int', -2 ** 64]]))]
    if t == 'posspec':
        k = draw(st.integers(0, 4))
        if k == 0:
            return ['none']
        if k == 1:
            return draw(arg('int'))
        if k == 2 and draw(st.booleans()):
            # a range whose ends are placed relative to the length of the target: up to / at / one past the last position, from either end
            return ['range_rel', draw(st.sampled_from([0, 0, 1, -1, -2])), draw(st.sampled_from([0, 1, 2, -1])), draw(st.sampled_from([1, 1, 2, -1, -1, -2])), draw(st.booleans())]
        if k == 2:
            return ['range', draw(st.sampled_from(INTS)), draw(st.sampled_from(INTS)), draw(st.sampled_from([1, 2, -1, -2, 3]))]
        return ['list', [draw(arg('int')) for _ in range(draw(st.integers(0, 4)))]]
    if t == 'bits_or_int':
        return draw(arg('bits')) if draw(st.booleans()) else draw(arg('int'))
    if t == 'bsfmt':
        return draw(st.sampled_from([['none'], ['int', 0], ['int', 1], ['int', 2], ['int', -1], ['int', 2 ** 63], ['str', 'h'], ['str', '<2hb'], ['str', 'x'], ['str', ''], ['str', '0h'],
                                     ['list', [['int', 1], ['int', 2]]], ['list', [['int', -1]]], ['list', []], ['list', [['int', 0], ['int', 0]]], ['str', '>'], ['str', '2']]))
    if t == 'any':
        return draw(st.sampled_from([['none'], ['int', 0], ['float', '0x1.8p+0'], ['str', 'abc'], ['str', '0b1'], ['object'], ['int', 2 ** 70], ['bool', True], ['list', []], ['bytes', 'ff'],
                                     ['self'], ['pool', 3], ['float', 'nan'], ['dict']])) if draw(st.booleans()) else draw(arg('bits'))
    if t == 'propname':
        return ['str', draw(st.sampled_from(['uint', 'int', 'hex', 'bin', 'oct', 'bytes', 'float', 'floatle', 'bfloat', 'bool', 'ue', 'se', 'uie', 'sie', 'uintle', 'intbe', 'uintne', 'bits', 'pad',
                                              'p3binary', 'p4binary', 'e4m3mxfp', 'e5m2mxfp', 'e3m2mxfp', 'e2m3mxfp', 'e2m1mxfp', 'e8m0mxfp', 'mxint', 'u', 'i', 'h', 'b', 'o', 'f', 'len', 'length',
                                              'pos', 'bytepos', 'bitpos', 'foo', '_bitstore_x', 'uint8', 'int0', 'float17', 'hex3', 'bytes2', 'u64', 'bool2', 'ue3', 'uint-1', 'float64', 'e4m3mxfp8']))]
    if t == 'propvalue':
        return draw(st.sampled_from([['int', 0], ['int', 1], ['int', -1], ['int', 255], ['int', 256], ['int', 2 ** 64], ['float', '0x1.8p+0'], ['float', 'nan'], ['float', 'inf'], ['str', 'ff'],
                                     ['str', '0b101'], ['str', 'xyz'], ['str', ''], ['bytes', 'abcd'], ['bytes', ''], ['bool', True], ['none'], ['obj', 'Bits', '1010'], ['float', '0x1p+200']]))
    if t == 'number':
        return draw(st.sampled_from([['int', 0], ['int', 1], ['int', -1], ['int', 2], ['int', 255], ['int', 256], ['int', -129], ['int', 2 ** 64], ['float', '0x1.8p+0'], ['float', 'nan'], ['float', 'inf'],
                                     ['float', '-0x1p+0'], ['float', '0x1p+200'], ['bool', True], ['str', 'a'], ['bytes', 'ab'], ['none']]))
    if t == 'numlist':
        return ['list', [draw(arg('number')) for _ in range(draw(st.integers(0, 4)))]]
    if t == 'dtypespec':
        k = draw(st.integers(0, 3))
        if k == 0:
            return ['dtype', draw(st.sampled_from(['uint', 'int', 'float', 'hex', 'bytes', 'bool', 'e4m3mxfp', 'ue', 'bits', 'pad', 'bfloat', 'nonsense'])), draw(st.sampled_from([None, 0, 1, 3, 8, 12, 16, 32, 64, -1]))]
        return ['str', draw(mutated_text(['uint8', 'int4', 'float16', 'hex4', 'bool', '<h', '>Q', '=f', 'bytes2', 'e4m3mxfp', 'bfloat', 'uint', 'ue', 'bits3', 'bin2', 'float20', 'uintle12', 'pad4', 'i7', 'u0']))]
    raise AssertionError(t)


# (method name -> list of argument types). 'op:x' = via the operator module.
BITS_API = {
    'all': ['value', 'posspec'], 'any': ['value', 'posspec'], 'copy': [], 'count': ['value'], 'cut': ['int', 'optint', 'optint', 'optint'], 'endswith': ['bits', 'optint', 'optint'],
    'find': ['bits', 'optint', 'optint', 'optbool'], 'findall': ['bits', 'optint', 'optint', 'optint', 'optbool'], 'join': ['bitslist'], 'pp': ['ppfmt', 'sizeint', 'sep', 'bool'],
    'rfind': ['bits', 'optint', 'optint', 'optbool'], 'split': ['bits', 'optint', 'optint', 'optint', 'optbool'], 'startswith': ['bits', 'optint', 'optint'], 'tobitarray': [], 'tobytes': [],
    'tofile': [], 'unpack': ['fmt'], 'fromstring': ['bits'],
    'op:getitem': ['index'], 'op:eq': ['any'], 'op:ne': ['any'], 'op:add': ['bits'], 'op:radd': ['bits'], 'op:mul': ['sizeint'], 'op:rmul': ['sizeint'], 'op:invert': [], 'op:lshift': ['int'],
    'op:rshift': ['int'], 'op:and_': ['bits'], 'op:or_': ['bits'], 'op:xor': ['bits'], 'op:contains': ['bits'], 'op:iter': [], 'op:len': [], 'op:bool': [], 'op:hash': [], 'op:str': [],
    'op:repr': [], 'op:bytes': [], 'op:lt': ['any'], 'op:reversed': [], 'getattr': ['propname'], 'setattr': ['propname', 'propvalue'], 'op:copy': [], 'op:deepcopy': [],
}
MUT_API = {
    'append': ['bits'], 'byteswap': ['bsfmt', 'optint', 'optint', 'bool'], 'clear': [], 'insert': ['bits', 'int'], 'invert': ['posspec'], 'overwrite': ['bits', 'int'], 'prepend': ['bits'],
    'replace': ['bits', 'bits', 'optint', 'optint', 'optint', 'optbool'], 'reverse': ['optint', 'optint'], 'rol': ['int', 'optint', 'optint'], 'ror': ['int', 'optint', 'optint'],
    'set': ['value', 'posspec'], 'op:setitem': ['index', 'bits_or_int'], 'op:delitem': ['index'], 'op:iadd': ['bits'], 'op:imul': ['sizeint'], 'op:ilshift': ['int'], 'op:irshift': ['int'],
    'op:iand': ['bits'], 'op:ior': ['bits'], 'op:ixor': ['bits'],
}
STREAM_API = {
    'bytealign': [], 'peek': ['fmt1'], 'peeklist': ['fmt'], 'read': ['fmt1'], 'readlist': ['fmt'], 'readto': ['bits', 'optbool'], 'set_pos': ['int'], 'set_bytepos': ['int'], 'set_bitpos': ['int'],
    'get_bytepos': [],
}
ARRAY_API = {
    'append': ['number'], 'astype': ['dtypespec'], 'byteswap': [], 'count': ['number'], 'equals': ['any'], 'extend': ['numlist'], 'fromfile': ['optint'], 'insert': ['int', 'number'], 'pop': ['optint'],
    'pp': ['ppfmt', 'sizeint', 'bool'], 'reverse': [], 'tobytes': [], 'tofile': [], 'tolist': [], 'op:getitem': ['index'], 'op:setitem': ['index', 'number'], 'op:setitem_list': ['index', 'numlist'],
    'op:delitem': ['index'], 'op:len': [], 'op:iter': [], 'op:repr': [], 'op:copy': [], 'set_dtype': ['dtypespec'], 'op:add': ['number'], 'op:sub': ['number'], 'op:mul': ['number'],
    'op:floordiv': ['number'], 'op:truediv': ['number'], 'op:mod': ['number'], 'op:lshift': ['number'], 'op:rshift': ['number'], 'op:and_': ['bits'], 'op:or_': ['bits'], 'op:xor': ['bits'],
    'op:neg': [], 'op:abs': [], 'op:eq': ['number'], 'op:lt': ['number'], 'op:iadd': ['number'], 'op:imul': ['number'], 'op:ifloordiv': ['number'], 'op:radd': ['number'], 'op:rsub': ['number'],
    'op:add_arr': ['numlist'], 'op:eq_arr': ['numlist'], 'get_props': [], 'data_edit': ['bits'],
}
GLOBAL_API = {
    'construct_auto': ['any', 'optint', 'optint'], 'construct_kw': ['propname', 'propvalue', 'optint', 'optint'], 'construct_bytes': ['bits', 'optint', 'optint'], 'construct_int': ['sizeint'],
    'construct_pos': ['bits', 'int'], 'pack': ['packfmt', 'numlist'], 'Dtype': ['dtypespec', 'optint', 'number'], 'dtype_build': ['dtypespec', 'propvalue'], 'dtype_parse': ['dtypespec', 'bits'],
    'pack_obj': ['poolobj', 'bits', 'bool'], 'Array': ['dtypespec', 'numlist', 'bits'], 'Array_int': ['dtypespec', 'sizeint'], 'Array_bits': ['dtypespec', 'bits'], 'set_option': ['propname', 'propvalue'],
}
OP_KW = {'find': ['start', 'end', 'bytealigned'], 'cut': ['start', 'end', 'count']}


def api_coverage():
    """names in dir() of the classes that the table does not exercise (reported in evidence; not an error)"""
    bs = bitstring_module()
    missing = {}
    known = set(BITS_API) | set(MUT_API) | set(STREAM_API) | {'len', 'length', 'pos', 'bitpos', 'bytepos'}
    dtype_names = set(bs.dtype_register.names)
    for c in (bs.Bits, bs.BitArray, bs.ConstBitStream, bs.BitStream):
        m = [n for n in dir(c) if not n.startswith('_') and n not in known and n not in dtype_names]
        if m:
            missing[c.__name__] = m
    am = [n for n in dir(bs.Array) if not n.startswith('_') and n not in ARRAY_API and n not in ('data', 'dtype', 'itemsize', 'trailing_bits')]
    if am:
        missing['Array'] = am
    return missing


# ---------------------------------------------------------------------------------------------
# interpreter

class W:
    def __init__(self, pool_specs):
        self.bs = bitstring_module()
        self.pool = []      # [obj, kind, shadow]
        for sp in pool_specs:
            self.add(self.make_pool(sp))
        self.options = {'lsb0': False, 'bytealigned': False, 'mxfp_overflow': 'saturate', 'no_color': False}
        self.raised = 0
        self.out_of_domain = 0
        self.excluded_known = 0
        self.excluded_setitem = 0

    def make_pool(self, sp):
        bs = self.bs
        if sp[0] == 'bs':
            return mk(sp[1], sp[2], sp[3] if sp[1] in STREAMS else None)
        if sp[0] == 'array':
            return bs.Array(sp[1], sp[2])
        return bs.Dtype(sp[1])

    def add(self, o):
        bs = self.bs
        if len(self.pool) >= 8:
            return
        if isinstance(o, bs.Bits):
            if len(o) > 100000:
                return
            self.pool.append([o, 'bs', o.bin if type(o).__name__ in IMMUTABLE else None])
        elif isinstance(o, bs.Array):
            if len(o.data) > 50000:
                return
            self.pool.append([o, 'arr', None])
        elif isinstance(o, bs.Dtype):
            self.pool.append([o, 'dtype', repr(o)])

    def resolve(self, a, target):
        bs = self.bs
        t = a[0]
        if t == 'int':
            return a[1]
        if t == 'none':
            return None
        if t == 'bool':
            return a[1]
        if t == 'str':
            return a[1]
        if t == 'float':
            return math.nan if a[1] == 'nan' else (math.inf if a[1] == 'inf' else float.fromhex(a[1]))
        if t == 'bytes':
            return a[1].encode() if not all(c in '0123456789abcdef' for c in a[1]) or len(a[1]) % 2 else bytes.fromhex(a[1])
        if t == 'self':
            return target
        if t == 'pool':
            c = [p[0] for p in self.pool if p[1] == 'bs']
            return c[a[1] % len(c)] if c else bs.Bits()
        if t == 'obj':
            return mk(a[1], a[2])
        if t == 'promo':
            return make_promotable(a[1], a[2]) if promo_ok(a[1], a[2]) else mk('Bits', a[2])
        if t == 'list':
            return [self.resolve(x, target) for x in a[1]]
        if t == 'slice':
            return slice(self.resolve(a[1], target), self.resolve(a[2], target), self.resolve(a[3], target))
        if t == 'range':
            return range(a[1], a[2], a[3])
        if t == 'range_rel':
            n = len(target) if target is not None and hasattr(target, '__len__') else 8
            lo, hi = a[1], n + a[2]            # hi: n, n+1, n+2 or n-1
            if a[3] > 0:
                r = range(max(lo, 0) if a[4] else lo, hi, a[3])
            else:
                r = range(hi - 1 if a[4] else hi, lo - 1, a[3])
            return r
        if t == 'object':
            return object()
        if t == 'dict':
            return {}
        if t == 'dtype':
            try:
                return bs.Dtype(a[1], a[2]) if a[2] is not None else bs.Dtype(a[1])
            except Exception:
                return a[1] if a[2] is None else f'{a[1]}{a[2]}'
        raise AssertionError(a)

    # ------------------------------------------------------------------
    def call(self, step):
        bs = self.bs
        area, name, raw, args = step
        allowed_attr = name in ('getattr', 'setattr', 'set_option')
        if area == 'global':
            target = None
            f = lambda *a: self.global_call(name, *a)
        else:
            kinds = {'bits': ('bs',), 'mut': ('bs',), 'stream': ('bs',), 'array': ('arr',)}[area]
            cands = [p for p in self.pool if p[1] in kinds and (area != 'mut' or type(p[0]).__name__ in MUTABLE) and (area != 'stream' or type(p[0]).__name__ in STREAMS)]
            if not cands:
                return
            target = cands[raw % len(cands)][0]
            f = lambda *a: self.method_call(target, area, name, *a)
        rargs = [self.resolve(a, target) for a in args]
        if name == 'op:delitem' and rargs and isinstance(rargs[0], slice) and isinstance(rargs[0].step, int) and abs(rargs[0].step) >= 2 ** 63 - 1:
            # KNOWN FINDING C20-bitarray-delitem-huge-step: `del bitarray[::step]` with |step| >= 2**63-1 segfaults inside the bitarray
            # C extension (3.11); excluded by construction so that the search continues
            self.excluded_known += 1
            return
        if (area == 'mut' and name == 'op:setitem' and len(rargs) == 2 and isinstance(rargs[0], slice) and isinstance(rargs[0].step, int) and abs(rargs[0].step) >= 2 ** 63 - 1
                and isinstance(rargs[1], int)):
            # KNOWN FINDING C20-bitarray-setitem-huge-step: `bitarray[::step] = 0/1` with step <= -(2**63-1) segfaults inside the bitarray C
            # extension (3.11); bitstring passes the step through (negated under lsb0). Excluded by construction (both signs, int values only).
            self.excluded_setitem += 1
            return
        try:
            res = f(*rargs)
            # results are consumed like a user would
            if hasattr(res, '__next__'):
                res = list(_limited(res))
            if isinstance(res, list):
                for r in res[:3]:
                    self.add(r)
            else:
                self.add(res)
        except (MemoryError, OverflowError):
            self.out_of_domain += 1
        except Violation:
            raise
        except (ValueError, IndexError, TypeError, bs.Error, OSError):
            self.raised += 1
        except EOFError as e:
            if name != 'fromfile':
                raise Violation(f'{area}.{name} raised EOFError') from e
            self.raised += 1
        except AttributeError as e:
            if not allowed_attr:
                raise Violation(f'{area}.{name}{_fmt(args)} raised an internal AttributeError: {e}') from e
            self.raised += 1
        except RecursionError as e:
            raise Violation(f'{area}.{name}{_fmt(args)} raised RecursionError') from e
        except Exception as e:  # noqa
            raise Violation(f'{area}.{name}{_fmt(args)} raised {type(e).__name__}: {str(e)[:120]} (not one of the documented exception types)') from e
        # objects grown beyond the 'huge-but-feasible' bound leave the pool (their validity checks would only measure memory)
        self.pool = [p for p in self.pool if not (p[1] == 'bs' and len(p[0]) > 500_000) and not (p[1] == 'arr' and len(p[0].data) > 100_000)]
        try:
            self.check_state(f'{area}.{name}{_fmt(args)}')
        except MemoryError:
            self.out_of_domain += 1

    def method_call(self, target, area, name, *a):
        bs = self.bs
        if name.startswith('op:'):
            op = name[3:]
            if op == 'radd':
                return a[0] + target
            if op == 'rmul':
                if isinstance(a[0], int) and len(target) * max(a[0], 0) > 4_000_000:
                    return None
                return a[0] * target
            if op == 'rsub':
                return a[0] - target
            if op in ('len', 'bool', 'hash', 'str', 'repr', 'bytes', 'iter', 'reversed'):
                f = {'len': len, 'bool': bool, 'hash': hash, 'str': str, 'repr': repr, 'bytes': bytes, 'iter': lambda x: list(_limited(iter(x))), 'reversed': lambda x: list(_limited(reversed(x)))}[op]
                return f(target)
            if op in ('copy', 'deepcopy'):
                import copy
                return getattr(copy, op)(target)
            if op == 'delitem_unguarded':     # only used by the committed witness of C20-bitarray-delitem-huge-step
                return operator.delitem(target, a[0])
            if op == 'setitem_unguarded':     # only used by the committed witness of C20-bitarray-setitem-huge-step
                return operator.setitem(target, a[0], a[1])
            if op == 'setitem_list':
                return operator.setitem(target, a[0], a[1])
            if op in ('add_arr', 'eq_arr'):
                other = bs.Array(target.dtype, a[0])
                return operator.add(target, other) if op == 'add_arr' else operator.eq(target, other)
            if area == 'array' and op in ('mul', 'imul') and isinstance(a[0], int) and abs(a[0]) > 65536 and target.dtype.return_type not in (int, float, bool):
                self.out_of_domain += 1     # repeating str/bytes/Bits items 2**64 times: beyond the huge-but-feasible bound
                return None
            if op in ('mul', 'imul') and isinstance(a[0], int) and hasattr(target, 'bin') and len(target) * max(a[0], 0) > 4_000_000:
                self.out_of_domain += 1     # beyond the huge-but-feasible size bound
                return None
            return getattr(operator, op)(target, *a)
        if name == 'getattr':
            return getattr(target, a[0])
        if name == 'setattr':
            if a[0] in ('pos', 'bitpos', 'bytepos') and (not isinstance(a[1], int) or isinstance(a[1], bool)):
                return None    # positions are documented as int: other types are outside the domain
            return setattr(target, a[0], a[1])
        if name == 'set_pos':
            target.pos = a[0]
            return None
        if name == 'set_bytepos':
            target.bytepos = a[0]
            return None
        if name == 'set_bitpos':
            target.bitpos = a[0]
            return None
        if name == 'get_bytepos':
            return target.bytepos
        if name == 'tofile':
            return target.tofile(io.BytesIO())
        if name == 'pp':
            if area == 'array':
                return target.pp(a[0], a[1], a[2], io.StringIO())
            return target.pp(a[0], a[1], a[2], a[3], io.StringIO())
        if name == 'fromstring':
            return type(target).fromstring(a[0] if isinstance(a[0], str) else '0b1')
        if name == 'fromfile':
            return target.fromfile(io.BytesIO(b'\x01\x02\x03\x04\x05'), a[0]) if False else self._fromfile(target, a[0])
        if name == 'set_dtype':
            target.dtype = a[0]
            return None
        if name == 'get_props':
            return (target.itemsize, target.trailing_bits, target.dtype, len(target.data))
        if name == 'data_edit':
            target.data.append(bs.Bits(a[0]) if not isinstance(a[0], bs.Bits) else a[0])
            return None
        if name in ('find', 'rfind') and len(a) == 4 and a[3] is not None and a[1] is None:
            return getattr(target, name)(a[0], bytealigned=a[3], end=a[2])
        return getattr(target, name)(*a)

    def _fromfile(self, arr, n):
        import tempfile
        import os
        d = os.environ.get('VF_TMP', '/tmp')
        with tempfile.NamedTemporaryFile(dir=d, delete=True) as f:
            f.write(bytes(range(7)))
            f.flush()
            with open(f.name, 'rb') as fh:
                return arr.fromfile(fh, n)

    def global_call(self, name, *a):
        bs = self.bs
        c = cls_of(CLASSES[hash(str(a)[:20]) % 4]) if False else cls_of(CLASSES[len(str(a)) % 4])
        if name == 'construct_auto':
            kw = {}
            if a[1] is not None:
                kw['length'] = a[1]
            if a[2] is not None:
                kw['offset'] = a[2]
            if isinstance(a[0], int) and not isinstance(a[0], bool) and a[0] > 65536:
                return None
            return c(a[0], **kw)
        if name == 'construct_kw':
            kw = {a[0]: a[1]}
            if a[2] is not None:
                kw['length'] = a[2]
            if a[3] is not None:
                kw['offset'] = a[3]
            if a[0] in ('pad',) or (a[2] is not None and abs(a[2]) > 65536):
                return None
            if a[0] in ('pos', 'length', 'offset', 'len') and (not isinstance(a[1], int) or isinstance(a[1], bool)):
                return None   # documented as int
            return c(**kw)
        if name == 'construct_bytes':
            src = a[0]
            data = src.tobytes() if isinstance(src, bs.Bits) else (src if isinstance(src, (bytes, bytearray)) else b'\x01\x02\x03')
            kw = {}
            if a[1] is not None:
                kw['length'] = a[1]
            if a[2] is not None:
                kw['offset'] = a[2]
            return c(bytes=data, **kw)
        if name == 'construct_int':
            return c(a[0])
        if name == 'construct_pos':
            sc = cls_of(STREAMS[len(str(a)) % 2])
            return sc(a[0], pos=a[1])
        if name == 'pack':
            return bs.pack(a[0], *a[1], n=3)
        if name == 'pack_obj':
            x = a[0]
            n = len(x) if hasattr(x, '__len__') and isinstance(x, bs.Bits) else None
            fmt = ['bits', f'bits:{n}' if n is not None else 'bits', 'bits, bits', 'hex:4=f, bits', 'bits=v'][len(str(a[1])) % 5]
            if fmt == 'bits, bits':
                r = bs.pack(fmt, x, a[1])
            elif fmt == 'bits=v':
                r = bs.pack(fmt, v=x)
            else:
                r = bs.pack(fmt, x)
            if a[2] and len(r):
                # use the packed stream the way a caller would: edit it in place (must never reach the value it was packed from)
                r.invert(0)
                r.append('0b1')
            return r
        if name == 'Dtype':
            tok = a[0]
            if isinstance(tok, bs.Dtype):
                return bs.Dtype(tok)
            scale = a[2] if isinstance(a[2], (int, float)) and not isinstance(a[2], bool) else None
            if a[1] is not None and abs(a[1]) > 65536:
                return None
            return bs.Dtype(tok, a[1], scale) if a[1] is not None else bs.Dtype(tok, scale=scale)
        if name == 'dtype_build':
            d = a[0] if isinstance(a[0], bs.Dtype) else bs.Dtype(a[0])
            return d.build(a[1])
        if name == 'dtype_parse':
            d = a[0] if isinstance(a[0], bs.Dtype) else bs.Dtype(a[0])
            return d.parse(a[1])
        if name == 'Array':
            return bs.Array(a[0], a[1], a[2] if len(str(a[2])) % 3 == 0 else None)
        if name == 'Array_int':
            return bs.Array(a[0], min(a[1], 4096))
        if name == 'Array_bits':
            return bs.Array(a[0], a[1])
        if name == 'set_option':
            nm = ['lsb0', 'bytealigned', 'mxfp_overflow', 'no_color', 'nonexistent'][len(str(a[0])) % 5]
            val = a[1]
            if nm == 'mxfp_overflow' and len(str(val)) % 2:
                val = ['saturate', 'overflow'][len(str(a)) % 2]
            old = dict(self.options)
            try:
                setattr(bs.options, nm, val)
            except Exception:
                raise
            else:
                if nm in self.options:
                    self.options[nm] = bool(val) if nm != 'mxfp_overflow' else val
            return None
        raise AssertionError(name)

    # ------------------------------------------------------------------
    def check_state(self, what):
        bs = self.bs
        for o, kind, shadow in self.pool:
            if kind == 'bs':
                b = o.bin
                require(len(o) == len(b), f'len(s) != len(s.bin) after {what}', len=len(o), binlen=len(b), cls=type(o).__name__)
                if shadow is not None:
                    require(b == shadow, f'an immutable {type(o).__name__} changed after {what}', was=shadow[:60], now=b[:60])
                if hasattr(o, 'pos'):
                    require(0 <= o.pos <= len(o), f'stream pos outside [0, len] after {what}', pos=o.pos, len=len(o), cls=type(o).__name__)
            elif kind == 'arr':
                l = attempt(o.tolist)
                if not is_raised(l):
                    require(len(o) == len(l), f'len(Array) != len(tolist()) after {what}', len=len(o), tolist=len(l))
                require(isinstance(o.data, bs.BitArray), 'Array.data is no longer a BitArray')
            else:
                require(repr(o) == shadow, f'a Dtype object changed after {what}', was=shadow, now=repr(o))
        opt = bs.options
        got = {'lsb0': bool(opt.lsb0), 'bytealigned': bool(opt.bytealigned), 'mxfp_overflow': opt.mxfp_overflow, 'no_color': bool(opt.no_color)}
        require(got == self.options, f'module options changed behind the caller\'s back after {what}', got=got, expected=self.options)


def _limited(it, n=2000):
    for i, x in enumerate(it):
        if i >= n:
            return
        yield x


def _fmt(args):
    s = str(args)
    return s if len(s) < 200 else s[:200] + '...'


# ---------------------------------------------------------------------------------------------
# generators

@st.composite
def pool_st(draw):
    out = []
    for _ in range(draw(st.integers(1, 3))):
        cls = draw(st.sampled_from(CLASSES))
        b = draw(bits_st(max_len=48))
        out.append(['bs', cls, b, draw(st.integers(0, len(b)))])
    out.append(['bs', draw(st.sampled_from(MUTABLE)), draw(bits_st(max_len=48, min_len=1)), 0])
    if draw(st.integers(0, 2)) == 0:
        # lengths that mean something to a dtype (and their neighbours in the 8/16 grid): property assignment re-uses the object's own length
        out[-1][2] = draw(bits_of_len(draw(st.sampled_from([8, 16, 24, 32, 40, 48, 48, 56, 64, 72, 80, 96, 128]))))
    out.append(['bs', draw(st.sampled_from(STREAMS)), draw(bits_st(max_len=48, min_len=1)), 0])
    if draw(st.integers(0, 3)):
        out.append(['array', draw(st.sampled_from(['uint8', 'int4', 'float16', 'hex4', 'bool', '<h', 'e4m3mxfp', 'bytes2'])), draw(st.sampled_from([[], [0], [0, 1], [1, 0, 1]]))])
        if out[-1][1] == 'hex4':
            out[-1][2] = ['a', 'f'][:len(out[-1][2])]
        if out[-1][1] == 'bytes2':
            out[-1][2] = [b'ab'.decode(), b'cd'.decode()][:len(out[-1][2])]
            out[-1] = ['array', 'uint12', [1, 2]]
    return out


def step_strategy(areas):
    tables = {'bits': BITS_API, 'mut': MUT_API, 'stream': STREAM_API, 'array': ARRAY_API, 'global': GLOBAL_API}
    PP = [('bits', 'pp'), ('array', 'pp'), ('bits', 'op:str'), ('bits', 'op:repr'), ('array', 'op:repr'), ('global', 'set_option'), ('bits', 'pp'), ('array', 'pp')]

    @st.composite
    def f(draw):
        area = draw(st.sampled_from(areas))
        if area == 'pp':
            area, name = draw(st.sampled_from(PP))
            t = tables[area]
        else:
            t = tables[area]
            name = draw(st.sampled_from(sorted(t)))
        return [area, name, draw(st.integers(0, 99)), [draw(arg(x)) for x in t[name]]]
    return f()


def case_st(areas, max_steps=12, lsb0=True):
    @st.composite
    def f(draw, tier):
        steps = draw(st.lists(step_strategy(areas), min_size=1, max_size=max_steps if tier == 'quick' else 2 * max_steps))
        return {'pool': draw(pool_st()), 'steps': steps, 'lsb0': draw(st.sampled_from([False, False, True])) if lsb0 else False, 'ba': draw(st.sampled_from([False, False, True]))}
    return f


def run(case):
    bs = bitstring_module()
    w = W(case['pool'])
    bs.options.lsb0 = case['lsb0']
    bs.options.bytealigned = case['ba']
    w.options['lsb0'] = case['lsb0']
    w.options['bytealigned'] = case['ba']
    for s in case['steps']:
        w.call(s)
    return {'nt': w.raised > 0 or len(case['steps']) >= 2, 'labels': [s[0] + '.' + s[1] for s in case['steps'][:6]] + (['out-of-domain'] if w.out_of_domain else []) + (['excluded:C20-bitarray-delitem-huge-step'] if w.excluded_known else []) + (['excluded:C20-bitarray-setitem-huge-step'] if w.excluded_setitem else []),
            'excluded': {k: v for k, v in (('C20-bitarray-delitem-huge-step', w.excluded_known), ('C20-bitarray-setitem-huge-step', w.excluded_setitem)) if v}}


def selftest():
    miss = api_coverage()
    # not an error; printed so that a new public method shows up in the log
    if miss:
        print('C20: public names not in the call table:', miss)


EDGE_TOKENS = ['ue', 'se', 'uie', 'sie', 'uint:8', 'uint:3', 'int:5', 'hex', 'hex:4', 'bool', 'pad:3', 'pad:9', 'bits', 'bits:7', 'bytes:1', 'bytes', 'float:16', 'bin', 'bin:2', 'oct:3',
               'e4m3mxfp', 'bfloat', 'uintle:16', '2*ue', '2*bool', '3*(uint:2)']


@st.composite
def stream_edge_case(draw, tier):
    """streams whose remaining bits are just short of / exactly / just beyond what the tokens need (truncated exp-Golomb codes in particular), read with
    read / peek / readlist / peeklist / unpack and moved around"""
    shape = draw(st.integers(0, 4))
    if shape == 0:
        z = draw(st.integers(0, 5))
        content = '0' * z + '1' + draw(st.text('01', max_size=z + 1))
        content = content[:draw(st.integers(max(len(content) - 2, 0), len(content)))]
    elif shape == 1:
        content = ''.join(('0' + b) for b in draw(st.text('01', max_size=4))) + draw(st.sampled_from(['', '1', '10', '11', '0']))
    elif shape == 2:
        content = draw(bits_st(max_len=20, min_len=0))
    else:
        content = draw(bits_st(max_len=10)) + '0' * draw(st.integers(0, 4)) + draw(st.sampled_from(['', '1', '10', '100', '0010', '00010']))
    pos0 = len(content) if draw(st.booleans()) else draw(st.integers(0, len(content)))
    pool = [['bs', draw(st.sampled_from(STREAMS)), content, pos0], ['bs', draw(st.sampled_from(STREAMS)), draw(bits_st(max_len=12, min_len=1)), 0]]
    steps = []
    for _ in range(draw(st.integers(1, 6))):
        if pool[0][1] == 'BitStream' and draw(st.integers(0, 3)) == 0:
            # a mutator on the stream that sits at (or near) its end, with empty / tiny operands
            k = draw(st.integers(0, 5))
            n = len(content)
            empty = draw(st.sampled_from([['obj', 'Bits', ''], ['str', ''], ['promo', 'bytes', ''], ['obj', 'BitArray', '']]))
            if k == 0:
                steps.append(['mut', 'op:setitem', 0, [['int', draw(st.integers(-1, max(n - 1, 0)))], empty]])
            elif k == 1:
                steps.append(['mut', 'op:setitem', 0, [['slice', ['int', draw(st.integers(0, n))], ['none'], ['none']], empty]])
            elif k == 2:
                steps.append(['mut', 'op:delitem', 0, [['int', draw(st.integers(-1, max(n - 1, 0)))]]])
            else:
                steps.append(draw(step_strategy(['mut'])))
                steps[-1][2] = 0
            continue
        name = draw(st.sampled_from(['read', 'peek', 'readlist', 'peeklist', 'readlist', 'set_pos', 'bytealign', 'readto']))
        if name in ('read', 'peek'):
            a = [draw(st.one_of(st.just(['str', draw(st.sampled_from(EDGE_TOKENS[:23]))]), arg('fmt1')))]
        elif name in ('readlist', 'peeklist'):
            toks = draw(st.lists(st.sampled_from(EDGE_TOKENS), min_size=1, max_size=3))
            a = [['str', ', '.join(toks)] if draw(st.booleans()) else ['list', [['str', t] for t in toks]]]
        elif name == 'set_pos':
            a = [['int', draw(st.integers(-2, len(content) + 2))]]
        elif name == 'bytealign':
            a = []
        else:
            a = [draw(arg('bits')), draw(arg('optbool'))]
        steps.append(['stream', name, draw(st.integers(0, 1)) * 0, a])
    return {'pool': pool, 'steps': steps, 'lsb0': False, 'ba': draw(st.sampled_from([False, False, True]))}


SUBCHECKS = [
    Sub('C20.stream_edge', run, strategy=stream_edge_case, examples={'quick': 6000, 'thorough': 80000}),
    Sub('C20.construct_dtype_pack', run, strategy=case_st(['global'], 6), examples={'quick': 8000, 'thorough': 120000}),
    Sub('C20.sequence_search_print', run, strategy=case_st(['bits'], 8), examples={'quick': 10000, 'thorough': 150000}),
    Sub('C20.mutators', run, strategy=case_st(['mut', 'mut', 'bits'], 8), examples={'quick': 10000, 'thorough': 150000}),
    Sub('C20.stream', run, strategy=case_st(['stream', 'stream', 'mut'], 8), examples={'quick': 8000, 'thorough': 120000}),
    Sub('C20.array', run, strategy=case_st(['array', 'array', 'global'], 8), examples={'quick': 8000, 'thorough': 120000}),
    Sub('C20.print', run, strategy=case_st(['pp'], 6), examples={'quick': 6000, 'thorough': 80000}),
    Sub('C20.history', run, strategy=case_st(['bits', 'mut', 'stream', 'array', 'global'], 25), examples={'quick': 5000, 'thorough': 80000}),
]

for _s in SUBCHECKS:
    if _s.name in ['C20.history', 'C20.construct_dtype_pack']:
        _s.fuzz = True
