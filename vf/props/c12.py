"""C12 - LSB0 mode is a pure index mirror of MSB0 mode.

Oracle: for every position-taking operation, the lsb0 result on x must equal R(model_msb0(R(x), R(operands), same positions))
where R is bit reversal and model_msb0 is the str model of C03/C07 (so the oracle is independent of the implementation).
Mode-independent observables must be identical with the option on and off; toggling the option off restores msb0 exactly."""
import copy
import math

from hypothesis import strategies as st

from vf.engine import Sub, require, bitstring_module, Violation
from vf.common import (bits_st, bits_of_len, index_st, slice_st, cls_st, mcls_st, mk, attempt, is_raised, CLASSES, MUTABLE, norm_window, cls_of, window_st,
                       lenbucket)
from vf import codecs
from vf.props import c03, c07, c10
from vf.props.c07 import all_matches, greedy

RULE = ("cases = (content, position-taking operation, position arguments incl. negative indices/steps, windows, bytealigned, counts) evaluated with "
        "options.lsb0 = True and compared with the reversed msb0 model on the reversed operands; plus mode-independent observables and toggle histories. "
        "Non-trivial = content that is not a palindrome, length >= 3 and arguments that are not symmetric under mirroring (window != whole or position != "
        "centre); distinct = SHA-1 of the case.")
ASSUMPTIONS = ["split() is not in the statement's list of mirrored operations and the repository's own suite pins a different LSB0 behaviour for it: not checked",
               "+, * and join are concatenations in stored order in both modes (checked as mode-independent)", "exp-Golomb codes must raise under lsb0 (documented)",
               "a stream pos carried across a toggle is documented as undefined: toggles happen at pos 0 only"]


def R(s):
    return s[::-1]


def nontrivial(bits, *args):
    return len(bits) >= 3 and bits != bits[::-1]


def lsb0_on():
    bitstring_module().options.lsb0 = True


# ------------------------------------------------------------------------------------------- index / slice / all / any

@st.composite
def get_case(draw, tier):
    bits = draw(bits_st(max_len=200, long=False))
    n = len(bits)
    what = draw(st.sampled_from(['index', 'slice', 'slice', 'slice', 'all', 'any', 'iter']))
    case = {'what': what, 'cls': draw(cls_st), 'bits': bits}
    if what == 'index':
        case['i'] = draw(index_st(n))
    elif what == 'slice':
        case['slice'] = draw(slice_st(n, steps=[None, 1, 2, 3, 7, 8, -1, -2, -3, -8]))
    elif what in ('all', 'any'):
        case['value'] = draw(st.booleans())
        case['pos'] = draw(st.lists(index_st(n), max_size=6))
    return case


def run_get(case):
    bits = case['bits']
    n = len(bits)
    rb = R(bits)
    lsb0_on()
    x = mk(case['cls'], bits)
    what = case['what']
    if what == 'index':
        i = case['i']
        got = attempt(lambda: x[i])
        if -n <= i < n:
            require(got == (rb[i] == '1') and not is_raised(got), 'lsb0 index is not the mirrored bit', i=i, got=got, bits=bits[:64])
        else:
            require(is_raised(got, IndexError), 'lsb0 out-of-range index must raise IndexError', i=i, got=got)
    elif what == 'slice':
        a, b, c = case['slice']
        got = attempt(lambda: x[a:b:c])
        exp = R(rb[a:b:c])
        require(not is_raised(got) and got.bin == exp, 'lsb0 slice is not the mirror of the msb0 slice of the reversed bits', slice=case['slice'], got=got if is_raised(got) else got.bin[:80],
                expected=exp[:80], bits=bits[:80])
        require(type(got) is type(x), 'slice class changed')
    elif what in ('all', 'any'):
        pos = case['pos']
        v = case['value']
        got = attempt(getattr(x, what), v, pos)
        if any(not -n <= p < n for p in pos):
            # evaluation may stop early; if it raises it must be IndexError
            if is_raised(got):
                require(is_raised(got, IndexError), 'out-of-range position must raise IndexError', got=got)
        else:
            vals = [(rb[p] == '1') == v for p in pos]
            exp = all(vals) if what == 'all' else any(vals)
            require(got is exp, f'lsb0 {what}(value, pos) does not use mirrored positions', got=got, expected=exp, pos=pos)
    else:
        require([b for b in x] == [c == '1' for c in bits] or [b for b in x] == [c == '1' for c in rb], 'iteration is neither stored nor mirrored order')
    require(x.bin == bits, 'lsb0 read access changed the content')
    return {'nt': nontrivial(bits), 'labels': [what, case['cls']]}


# ------------------------------------------------------------------------------------------- mutators (C03's op table under lsb0)

MIRROR_NAME = {'rol': 'ror', 'ror': 'rol'}


def lsb0_expected(m, op, r):
    """acceptable outcomes under lsb0 = reversed outcomes of the msb0 model on reversed operands"""
    if op['op'] in ('ilshift', 'irshift', 'imul', 'iand', 'ior', 'ixor', 'clear'):
        return c03.model(m, op, r)   # shifts keep their direction relative to the MSB; these take no positions: mode-independent
    if op['op'] == 'set_slice_int':
        # the integer is first turned into a bitstring of the slice's length (a whole-value interpretation: mode independent),
        # then that bitstring is assigned to the (mirrored) slice
        a, b, c = r['slice']
        val = op['val']
        n = len(m)
        if c in (None, 1, -1):
            L = len(range(*slice(a, b, c).indices(n))) if c != 0 else 0
            fits = L > 0 and not ((val >= 0 and val >= (1 << L)) or (val < 0 and val < -(1 << (L - 1))))
            if not fits:
                return [(m, c03.ANY, True)] + ([(m, None, False)] if L == 0 and c != -1 else [])
            enc = c03.twos(val, L)
            outs = lsb0_expected(m, {'op': 'set_slice_bits'}, {'slice': (a, b, c), 'v': enc})
            return outs + ([(m, c03.ANY, True)] if c == -1 else [])
    r2 = dict(r)
    for k in ('v', 'old', 'new'):
        if k in r2:
            r2[k] = R(r2[k])
    op2 = dict(op)
    op2['op'] = MIRROR_NAME.get(op['op'], op['op'])
    if op['op'] == 'append' or op['op'] == 'iadd':
        outs = c03.model(R(m), dict(op2, op='append'), r2)
    else:
        outs = c03.model(R(m), op2, r2)
    return [(R(c), ret, rz) for c, ret, rz in outs]


def mut_case(names):
    @st.composite
    def f(draw, tier):
        init = draw(bits_st(max_len=150))
        if names in c03.BIG_FAMILIES and draw(st.integers(0, 11)) == 0:
            return {'cls': draw(mcls_st), 'init': draw(c03.big_init()), 'steps': [draw(c03.op_st(names))]}
        if names == ['byteswap'] and draw(st.booleans()):
            init = draw(bits_of_len(8 * draw(st.integers(0, 20)) + draw(st.sampled_from([0, 0, 1, 7]))))
        nsteps = 1 if draw(st.integers(0, 3)) else draw(st.integers(2, 6))
        return {'cls': draw(mcls_st), 'init': init, 'steps': [draw(c03.op_st(names)) for _ in range(nsteps)]}
    return f


def run_mut(case):
    lsb0_on()
    m = case['init']
    x = mk(case['cls'], m)
    nt = False
    labels = []
    for k, op in enumerate(case['steps']):
        if len(m) > c03.MAX_LEN:
            break
        if op['op'] == 'replace' and op.get('ba') is None:
            op = dict(op, ba=False)
        r, objs = c03.resolve(op, m)
        outs = lsb0_expected(m, op, r)
        res = attempt(c03.call_impl, x, op, r, objs)
        if is_raised(res) and isinstance(res.exc, Violation):
            raise res.exc
        got = x.bin
        raised = is_raised(res)
        ok = False
        for c, ret, rz in outs:
            if rz == raised and c == got and (rz or ret == c03.ANY or res == ret):
                ok = True
                break
        if not ok:
            exp = [(c[:80], ret, 'raises' if rz else 'returns') for c, ret, rz in outs[:3]]
            raise Violation(f"lsb0 step {k} {op['op']}: result is not the mirror of the msb0 operation on the reversed operands | before={m[:80]!r} (len {len(m)}) "
                            f"resolved={ {kk: (vv if not isinstance(vv, str) else vv[:40]) for kk, vv in r.items()} } got={got[:80]!r} (len {len(got)}) result={res!r} | allowed={exp} | op={op}")
        if got != m and nontrivial(m):
            nt = True
        labels.append(op['op'] + (':raise' if raised else ''))
        m = got
    return {'nt': nt, 'labels': labels[:5] + [case['cls']]}


# ------------------------------------------------------------------------------------------- search family

@st.composite
def search_case(draw, tier, ops=None, long=False):
    op = draw(st.sampled_from(ops or ['find', 'rfind', 'findall', 'startswith', 'endswith', 'cut', 'split', 'in', 'count']))
    data, pat = draw(c07.data_with_pattern(17000 if long else 300, long))
    n = len(data)
    w = draw(window_st(n))
    case = {'op': op, 'cls': draw(cls_st), 'data': data, 'pat': pat, 'start': w[0], 'end': w[1], 'ba': draw(st.sampled_from([None, False, False, True])),
            'count': draw(st.sampled_from([None, None, 0, 1, 2, 3])) if op in ('findall', 'split', 'cut') else None}
    if op == 'cut':
        case['bits'] = draw(st.sampled_from([1, 2, 3, 7, 8, 9, 16])) if draw(st.booleans()) else draw(st.integers(1, max(1, n + 2)))
    if op in ('startswith', 'endswith') and draw(st.booleans()) and n:
        ww = norm_window(w[0], w[1], n)
        if ww:
            k = draw(st.integers(0, min(20, ww[1] - ww[0])))
            rd = R(data)
            case['pat'] = R(rd[ww[0]:ww[0] + k]) if op == 'startswith' else R(rd[ww[1] - k:ww[1]])
    if op == 'count':
        case['value'] = draw(st.booleans())
    return case


def run_search(case):
    lsb0_on()
    op = case['op']
    data, pat = case['data'], case['pat']
    n = len(data)
    rd, rp = R(data), R(pat)
    s_arg, e_arg, ba = case['start'], case['end'], case['ba']
    aligned = bool(ba)
    count = case.get('count')
    x = mk(case['cls'], data)
    p = mk('Bits', pat)
    win = norm_window(s_arg, e_arg, n)
    nt = False
    if op in ('find', 'rfind'):
        res = attempt(getattr(x, op), p, s_arg, e_arg, ba)
        if pat == '' or win is None:
            require(is_raised(res, ValueError), f'lsb0 {op}: expected ValueError', got=res)
        else:
            m = all_matches(rd, rp, win[0], win[1], aligned)
            exp = () if not m else ((m[0],) if op == 'find' else (m[-1],))
            require(res == exp, f'lsb0 {op} is not the mirrored msb0 {op}', got=res, expected=exp, data=data[:80], pat=pat, start=s_arg, end=e_arg, ba=ba)
            nt = bool(m)
    elif op == 'findall':
        res = attempt(lambda: list(x.findall(p, s_arg, e_arg, count, ba)))
        if pat == '' or win is None:
            require(is_raised(res, ValueError), 'lsb0 findall: expected ValueError', got=res)
        else:
            m = all_matches(rd, rp, win[0], win[1], aligned)
            exp = m if count is None else m[:count]
            require(res == exp, 'lsb0 findall is not the mirrored msb0 findall (increasing lsb0 positions, first `count`)', got=res if is_raised(res) else res[:12], expected=exp[:12],
                    pat=pat, start=s_arg, end=e_arg, ba=ba, count=count, n=n)
            nt = bool(m)
    elif op == 'in':
        if pat:
            require((p in x) is (pat in data), 'lsb0 `in` differs')
    elif op in ('startswith', 'endswith'):
        res = attempt(getattr(x, op), p, s_arg, e_arg)
        if win is None:
            require(is_raised(res, ValueError), f'lsb0 {op}: expected ValueError', got=res)
        else:
            sub = rd[win[0]:win[1]]
            exp = sub.startswith(rp) if op == 'startswith' else sub.endswith(rp)
            require(res is exp, f'lsb0 {op} is not the mirrored msb0 {op}', got=res, expected=exp, pat=pat, start=s_arg, end=e_arg, data=data[:80])
            nt = exp and pat != ''
    elif op == 'count':
        require(x.count(case['value']) == data.count('1' if case['value'] else '0'), 'count depends on the mode')
    elif op == 'cut':
        b = case['bits']
        res = attempt(lambda: [c.bin for c in x.cut(b, s_arg, e_arg, count)])
        if win is None:
            require(is_raised(res, ValueError), 'lsb0 cut: expected ValueError', got=res)
        else:
            sub = rd[win[0]:win[1]]
            exp = [R(sub[i:i + b]) for i in range(0, len(sub), b)]
            if count is not None:
                exp = exp[:count]
            require(res == exp, 'lsb0 cut is not the mirrored msb0 cut', got=res if is_raised(res) else res[:8], expected=exp[:8], bits=b, start=s_arg, end=e_arg)
            nt = len(exp) >= 2
    elif op == 'split':
        res = attempt(lambda: [c.bin for c in x.split(p, s_arg, e_arg, count, ba)])
        if count == 0 and (pat == '' or win is None):
            pass
        elif pat == '' or win is None:
            require(is_raised(res, ValueError), 'lsb0 split: expected ValueError', got=res)
        else:
            m = greedy(all_matches(rd, rp, win[0], win[1], aligned), len(pat))
            cuts = [win[0]] + m + [win[1]]
            exp = [R(rd[cuts[i]:cuts[i + 1]]) for i in range(len(cuts) - 1)]
            if count is not None:
                exp = exp[:count]
            require(res == exp, 'lsb0 split is not the mirrored msb0 split', got=res if is_raised(res) else res[:8], expected=exp[:8], pat=pat, start=s_arg, end=e_arg, ba=ba, count=count)
            nt = bool(m)
    require(x.bin == data, 'search modified the object')
    whole = win is not None and win == (0, n)
    return {'nt': nt and nontrivial(data) and (not whole or aligned or op in ('cut', 'split')), 'labels': [op, 'ba=%s' % ba, lenbucket(n)]}


# ------------------------------------------------------------------------------------------- read / unpack / pack

TOKS = ['uint', 'int', 'hex', 'bin', 'oct', 'bits', 'bytes', 'uintle', 'intbe', 'float', 'bool', 'pad']


@st.composite
def token_list(draw):
    out = []
    for _ in range(draw(st.integers(1, 5))):
        name = draw(st.sampled_from(TOKS))
        if name == 'bool':
            out.append({'name': 'bool', 'n': 1})
        elif name == 'pad':
            out.append({'name': 'pad', 'n': draw(st.integers(0, 9))})
        else:
            out.append({'name': name, 'n': draw(codecs.length_for(name, 40))})
    return out


def tok_text(t):
    if t['name'] == 'bool':
        return 'bool'
    L = t['n'] // 8 if t['name'] == 'bytes' else t['n']
    return f"{t['name']}:{L}"


@st.composite
def rw_case(draw, tier):
    toks = draw(token_list())
    total = sum(t['n'] for t in toks)
    extra = draw(st.integers(0, 12))
    bits = draw(bits_of_len(total + extra))
    return {'toks': toks, 'bits': bits, 'cls': draw(st.sampled_from(['ConstBitStream', 'BitStream'])), 'stretchy': draw(st.sampled_from([None, None, 'bin', 'bits', 'hex'])),
            'mode': draw(st.sampled_from(['read', 'readlist', 'unpack', 'peek', 'pack']))}


def run_rw(case):
    bs = bitstring_module()
    lsb0_on()
    toks, bits = case['toks'], case['bits']
    n = len(bits)
    mode = case['mode']
    # expected: the k bits taken at lsb0 position p are stored-order bits d[n-p-k : n-p], interpreted as usual
    exp = []
    p = 0
    for t in toks:
        chunk = bits[n - p - t['n']: n - p]
        p += t['n']
        if t['name'] == 'pad':
            continue
        exp.append(chunk if t['name'] == 'bits' else codecs.decode(t['name'], chunk))

    def eq(g, e):
        return (g.bin == e) if hasattr(g, 'bin') else codecs.same_value(g, e)
    if mode == 'pack':
        vals = []
        for t in toks:
            if t['name'] == 'pad':
                continue
            chunk = bits[len(''.join(x for x in vals if isinstance(x, str) and False)):]
        # pack: token encodings unchanged, placement order reversed
        encs, pvals = [], []
        q = 0
        for t in toks:
            c = bits[q:q + t['n']]
            q += t['n']
            encs.append(c if t['name'] != 'pad' else '0' * t['n'])
            if t['name'] != 'pad':
                pvals.append(bs.Bits(bin=c) if t['name'] == 'bits' else codecs.decode(t['name'], c))
        skip = any(isinstance(v, float) and math.isnan(v) for v in pvals)
        if not skip:
            # the same values passed in the three ways pack offers: positional, keyword value ('name:n=kw') and a bare keyword token holding the bits
            parts, pos_vals, kw = [], [], {}
            vi = 0
            for i, t in enumerate(toks):
                if t['name'] == 'pad':
                    parts.append(tok_text(t))
                    continue
                v = pvals[vi]
                vi += 1
                style = (n + 3 * i + len(toks)) % 3 if case.get('kwstyle', True) else 0
                if style == 1:
                    parts.append(f'{tok_text(t)}=v{i}')
                    kw[f'v{i}'] = v
                elif style == 2:
                    parts.append(f'b{i}')
                    kw[f'b{i}'] = bs.Bits(bin=encs[i])
                else:
                    parts.append(tok_text(t))
                    pos_vals.append(v)
            res2 = attempt(bs.pack, ', '.join(parts), *pos_vals, **kw)
            require(not is_raised(res2) and res2.bin == ''.join(reversed(encs)), 'lsb0 pack with keyword values / bare keyword tokens must place the token encodings in reversed order like the positional form',
                    got=res2 if is_raised(res2) else res2.bin[:80], expected=''.join(reversed(encs))[:80], fmt=', '.join(parts))
            fmt = ', '.join(tok_text(t) for t in toks)
            res = attempt(bs.pack, fmt, *pvals)
            expbits = ''.join(reversed(encs))
            require(not is_raised(res) and res.bin == expbits, 'lsb0 pack must place the (unchanged) token encodings in reversed order', got=res if is_raised(res) else res.bin[:80],
                    expected=expbits[:80], fmt=fmt)
            back = attempt(res.unpack, fmt)
            require(not is_raised(back) and len(back) == len(pvals) and all(eq(g, (e.bin if hasattr(e, 'bin') else e)) for g, e in zip(back, pvals)),
                    'lsb0 unpack does not invert lsb0 pack', got=back)
        return {'nt': len(toks) >= 2 and nontrivial(bits), 'labels': ['pack']}
    s = mk(case['cls'], bits)
    fmt = ', '.join(tok_text(t) for t in toks)
    stretchy = case['stretchy']
    rest = bits[:n - p]
    if stretchy == 'hex' and len(rest) % 4:
        stretchy = 'bin'
    if mode == 'read':
        got = []
        for t in toks:
            before = s.pos
            v = attempt(s.read, tok_text(t))
            require(not is_raised(v), 'lsb0 read raised', got=v, tok=tok_text(t))
            require(s.pos == before + t['n'], 'lsb0 read did not advance pos by the token length', pos=s.pos)
            if t['name'] != 'pad':
                got.append(v)
        require(len(got) == len(exp) and all(eq(g, e) for g, e in zip(got, exp)), 'lsb0 read does not take the mirrored bits interpreted in stored order', got=got, expected=exp, bits=bits[:80], fmt=fmt)
    else:
        f2 = fmt + (', ' + stretchy if stretchy and mode in ('unpack', 'readlist') else '')
        e2 = exp + ([rest if stretchy in ('bin', 'bits') else codecs.decode('hex', rest)] if stretchy and mode in ('unpack', 'readlist') else [])
        if mode == 'unpack':
            got = attempt(s.unpack, f2)
        elif mode == 'readlist':
            got = attempt(s.readlist, f2)
        else:
            got = attempt(s.peeklist, f2)
            require(s.pos == 0, 'peeklist moved pos')
        require(not is_raised(got) and len(got) == len(e2) and all(eq(g, e) for g, e in zip(got, e2)), f'lsb0 {mode} does not take the mirrored bits interpreted in stored order',
                got=got, expected=e2, bits=bits[:80], fmt=f2)
    return {'nt': len(toks) >= 2 and nontrivial(bits), 'labels': [mode]}


# ------------------------------------------------------------------------------------------- mode independent

@st.composite
def indep_case(draw, tier):
    k = draw(st.integers(0, 5))
    if k == 0:
        n = draw(st.sampled_from([1999, 2000, 2001, 2008, 2400, 3600, 3601, 5000, 8193]))
        bits = draw(bits_of_len(n))
    elif k == 1:
        # lengths at which the fixed-length interpretations exist (floats, bfloat, the 8/6/4-bit formats, whole bytes)
        bits = draw(bits_of_len(draw(st.sampled_from([1, 4, 6, 8, 8, 16, 16, 16, 24, 32, 32, 64, 64, 12, 48]))))
    else:
        bits = draw(bits_st(max_len=300))
    return {'bits': bits, 'other': draw(bits_st(max_len=40)), 'cls': draw(cls_st), 'k': draw(st.integers(0, 70)), 'golomb': draw(st.sampled_from(c10.KINDS))}


WHOLE_VALUE = {'uintbe': lambda n: n % 8 == 0, 'uintle': lambda n: n % 8 == 0, 'uintne': lambda n: n % 8 == 0, 'intbe': lambda n: n % 8 == 0, 'intle': lambda n: n % 8 == 0,
               'intne': lambda n: n % 8 == 0, 'oct': lambda n: n % 3 == 0, 'floatbe': lambda n: n in (16, 32, 64), 'floatle': lambda n: n in (16, 32, 64),
               'floatne': lambda n: n in (16, 32, 64), 'bfloat': lambda n: n == 16, 'bfloatbe': lambda n: n == 16, 'bfloatle': lambda n: n == 16, 'bfloatne': lambda n: n == 16,
               'bool': lambda n: n == 1, 'p3binary': lambda n: n == 8, 'p4binary': lambda n: n == 8, 'e4m3mxfp': lambda n: n == 8, 'e5m2mxfp': lambda n: n == 8,
               'e8m0mxfp': lambda n: n == 8, 'mxint': lambda n: n == 8, 'e3m2mxfp': lambda n: n == 6, 'e2m3mxfp': lambda n: n == 6, 'e2m1mxfp': lambda n: n == 4}


def _fl(v):
    return 'nan' if isinstance(v, float) and math.isnan(v) else v


def observables(bs, cls, bits, other, k):
    x = mk(cls, bits)
    y = mk('Bits', other)
    n = len(bits)
    out = {'bin': x.bin, 'len': len(x), 'tobytes': x.tobytes(), 'eq': x == mk('Bits', bits), 'eq_str': (x == '0b' + bits) if bits else True, 'ne_other': x != y or bits == other,
           'count': x.count(1), 'add': (x + y).bin, 'radd': (y + x).bin, 'mul': (x * 2).bin, 'join': x.join([y, y]).bin, 'bool': bool(x)}
    if cls in ('Bits', 'ConstBitStream'):
        out['hash'] = hash(x)
    if n:
        out.update(uint=x.uint, int=x.int, lshift=(x << (k % (n + 2))).bin, rshift=(x >> (k % (n + 2))).bin, invert=(~x).bin)
        out['and'] = (x & mk('Bits', '10' * n)[:n]).bin if False else None
    if n % 4 == 0:
        out['hex'] = x.hex
    if n % 8 == 0:
        out['bytes'] = x.bytes
        if n:
            out['uintle'] = x.uintle
    if n in (16, 32, 64):
        f = x.float
        out['float'] = 'nan' if math.isnan(f) else f
    for name, ok in WHOLE_VALUE.items():
        if n and ok(n):
            v = attempt(getattr, x, name)
            out['get_' + name] = _fl(v) if not is_raised(v) else 'raised ' + v.type.__name__
            if not is_raised(v) and not (isinstance(v, float) and math.isnan(v)):
                # and building from the value: stored bit order does not depend on the mode
                kw = {name: v} if name.startswith(('bfloat', 'bool', 'p3', 'p4', 'e', 'mxint')) or name == 'oct' else {name: v, 'length': n}
                w = attempt(lambda: cls_of(cls)(**kw).bin)
                out['build_' + name] = w if not is_raised(w) else 'raised ' + w.type.__name__
                w = attempt(lambda: bs.pack(name if 'length' not in kw else f'{name}:{n}', v).bin)
                out['pack_' + name] = w if not is_raised(w) else 'raised ' + w.type.__name__
    if n:
        out['from_uint'] = cls_of(cls)(uint=x.uint, length=n).bin
        out['from_hex'] = cls_of(cls)(hex=x.hex).bin if n % 4 == 0 else None
    if cls in MUTABLE and n:
        z = mk(cls, bits)
        z <<= k % (n + 2)
        out['ilshift'] = z.bin
        z = mk(cls, bits)
        z >>= k % (n + 2)
        out['irshift'] = z.bin
    return out


def run_indep(case):
    bs = bitstring_module()
    bits = case['bits']
    a = observables(bs, case['cls'], bits, case['other'], case['k'])
    bs.options.lsb0 = True
    b = observables(bs, case['cls'], bits, case['other'], case['k'])
    g = case['golomb']
    r1 = attempt(lambda: bs.Bits(**{g: 3}))
    r2 = attempt(lambda: bs.ConstBitStream('0b00100').read(g))
    require(is_raised(r1, ValueError) and is_raised(r2, ValueError, bs.ReadError), 'exp-Golomb codes must raise under lsb0 (documented)', create=r1, read=r2)
    bs.options.lsb0 = False
    for key in a:
        require(a[key] == b[key], f'mode-independent observable `{key}` differs between msb0 and lsb0', msb0=a[key] if not isinstance(a[key], (str, bytes)) else a[key][:60],
                lsb0=b[key] if not isinstance(b[key], (str, bytes)) else b[key][:60], n=len(bits), cls=case['cls'])
    c = observables(bs, case['cls'], bits, case['other'], case['k'])
    require(a == c, 'observables differ after switching lsb0 on and off again')
    return {'nt': len(bits) >= 3, 'labels': [lenbucket(len(bits)), case['cls']]}


# ------------------------------------------------------------------------------------------- toggle restore

@st.composite
def toggle_case(draw, tier):
    bits = draw(bits_st(max_len=120, min_len=1))
    ops = [draw(c03.op_st(c03.ALL_OPS)) for _ in range(draw(st.integers(1, 4)))]
    ops = [dict(o, ba=False) if o['op'] == 'replace' and o.get('ba') is None else o for o in ops]
    return {'bits': bits, 'ops': ops, 'toggles': draw(st.lists(st.sampled_from(['opt_true', 'opt_false', 'mod_true', 'mod_false', 'opt_one', 'opt_zero', 'mod_one', 'mod_zero']), min_size=1, max_size=5)),
            'final': draw(st.booleans()), 'cls': draw(mcls_st), 'slice': draw(slice_st(len(bits))), 'pat': draw(bits_st(max_len=4, min_len=1))}


def probe(bs, case):
    """a fixed bundle of position-dependent observations on a fresh object"""
    bits = case['bits']
    x = mk(case['cls'], bits)
    a, b, c = case['slice']
    out = [x[a:b:c].bin, x.find(mk('Bits', case['pat'])), list(x.findall(mk('Bits', case['pat']), count=3)), x.rfind(mk('Bits', case['pat']))]
    m = bits
    for op in case['ops']:
        if len(m) > 2000:
            break
        r, objs = c03.resolve(op, m)
        res = attempt(c03.call_impl, x, op, r, objs)
        out.append(('raised' if is_raised(res) else res, x.bin))
        m = x.bin
    s = bs.ConstBitStream(bin=bits)
    out.append(attempt(lambda: s.read(min(3, len(bits))).bin))
    out.append(bs.pack('uint:3, bin:2', 5, '01').bin)
    return out


def run_toggle(case):
    bs = bitstring_module()
    import bitstring
    final = case['final']
    ref = {}
    for b in (True, False):
        bs.options.lsb0 = b
        ref[b] = probe(bs, case)
    bs.options.lsb0 = final
    first = probe(bs, case)
    for t in case['toggles']:
        v = t.endswith(('true', 'one'))
        raw = v if t.endswith(('true', 'false')) else int(v)       # the option is a truth value: 1 / 0 switch it like True / False
        if t.startswith('opt'):
            bs.options.lsb0 = raw
        else:
            bitstring.lsb0 = raw       # deprecated module attribute
        require(bs.options.lsb0 is v and bitstring.lsb0 is v, 'option value not visible (as a bool) through both spellings', set_to=raw, got=bs.options.lsb0)
        now = probe(bs, case)
        require(now == ref[v], f'behaviour right after setting lsb0 to {raw!r} differs from the behaviour under lsb0={v}', toggle=t,
                got=[str(f)[:60] for f in now][:6], expected=[str(f)[:60] for f in ref[v]][:6])
    bs.options.lsb0 = final
    again = probe(bs, case)
    bs.options.lsb0 = False
    require(first == again, f'after a toggle sequence ending in lsb0={final} the behaviour differs from the first evaluation under that value',
            first=[str(f)[:60] for f in first][:6], again=[str(f)[:60] for f in again][:6], toggles=case['toggles'])
    return {'nt': len(case['toggles']) >= 2 and nontrivial(case['bits']), 'labels': ['final=%s' % final]}


def selftest():
    bs = bitstring_module()
    # doc/functions.rst example: s[0:5] in lsb0 is the right-most five bits
    bs.options.lsb0 = True
    try:
        s = bs.Bits('0b010001111')
        assert s[0:5].bin == '01111' and s[0] is True and s.int == 143 - 0 and s.bin == '010001111'
    finally:
        bs.options.lsb0 = False


def _m(name, ops, q=5000, t=80000):
    return Sub('C12.' + name, run_mut, strategy=mut_case(ops), examples={'quick': q, 'thorough': t})


SUBCHECKS = [
    Sub('C12.index_slice_all_any', run_get, strategy=get_case, examples={'quick': 10000, 'thorough': 150000}),
    _m('insert_overwrite_append', c03.FAMILIES['insert_overwrite']),
    _m('setitem_delitem', c03.FAMILIES['setitem_delitem'], 8000, 120000),
    _m('slice_assign_int', c03.FAMILIES['slice_assign_int']),
    _m('replace', c03.FAMILIES['replace']),
    Sub('C12.replace_planted', run_mut, strategy=c03.replace_planted_case, examples={'quick': 5000, 'thorough': 80000}),
    _m('reverse_rotate', c03.FAMILIES['reverse_rotate']),
    _m('set_invert', c03.FAMILIES['set_invert']),
    _m('byteswap', c03.FAMILIES['byteswap']),
    _m('shift_mul_logic', c03.FAMILIES['shift_mul_logic'], 3000, 40000),
    Sub('C12.find_rfind', run_search, strategy=lambda tier: search_case(tier, ['find', 'rfind']), examples={'quick': 8000, 'thorough': 120000}),
    Sub('C12.findall', run_search, strategy=lambda tier: search_case(tier, ['findall']), examples={'quick': 6000, 'thorough': 100000}),
    Sub('C12.prefix_suffix_cut', run_search, strategy=lambda tier: search_case(tier, ['startswith', 'endswith', 'cut', 'in', 'count']), examples={'quick': 6000, 'thorough': 80000}),
    Sub('C12.search_long_data', run_search, strategy=lambda tier: search_case(tier, ['find', 'rfind', 'findall'], long=True), examples={'quick': 600, 'thorough': 12000}),
    Sub('C12.read_unpack_pack', run_rw, strategy=rw_case, examples={'quick': 8000, 'thorough': 100000}),
    Sub('C12.mode_independent', run_indep, strategy=indep_case, examples={'quick': 4000, 'thorough': 50000}),
    Sub('C12.toggle_restore', run_toggle, strategy=toggle_case, examples={'quick': 3000, 'thorough': 40000}),
]
