"""C19 - printable forms faithfully describe the value."""
import io
import math
import re

from hypothesis import strategies as st

from vf.engine import Sub, require, bitstring_module
from vf.common import bits_st, bits_of_len, cls_st, mk, attempt, is_raised, cls_of, CLASSES, STREAMS, lenbucket, to_bytes
from vf import files, codecs
from vf.props import c14

RULE = ("str/repr: (class, content at every length residue mod 4 and mod 3, around 32 bits and around the 1000-bit limit 990..1010, long, pos, msb0|lsb0); "
        "pp: (content, one or two of bin/hex/oct with no / zero / explicit group sizes 1..64, width 0..200, separators, show_offset, lsb0, no_color); "
        "Array repr: every unscaled C14 dtype with finite items and optional trailing bits. Oracle: re-parse the text (Bits(str), eval(repr), digits extracted "
        "from the pp lines) and layout predicates. Non-trivial = length not a multiple of 4, or >= 2 lines of pp output, or trailing bits reported; distinct = SHA-1.")
ASSUMPTIONS = ["repr of a file-backed object is evaluated back only while the file exists (whole-file objects)",
               "pp may raise InterpretError/ValueError only when the model says the data cannot be shown in the format (length or group size not a multiple of the digit size)",
               "without an explicit group size the final group of the final line may be shorter (no trailing bits are reported in that form)",
               "lsb0 pp: lines and groups are in LSB0 cut order, so the data is trailing_bits + groups in reverse printed order"]

BITS_PER_CHAR = {'bin': 1, 'hex': 4, 'oct': 3}
ESC = '\x1b'


# ------------------------------------------------------------------------------------------- str / repr

ROUTES_FOR_PRINT = ['bitarray_little', 'bitarray_little_kw', 'frozenbitarray', 'bitarray_buffer', 'memoryview_wide', 'memoryview_wide_kw', 'bytes_offset', 'bytesio_offset', 'iterable',
                    'slice_of_longer', 'concat', 'join', 'pack_bits', 'iter_truthy']


@st.composite
def strrepr_case(draw, tier):
    k = draw(st.integers(0, 9))
    if k <= 1:
        n = draw(st.integers(984, 1016))
    elif k == 2:
        n = draw(st.sampled_from([1001, 1004, 2000, 4001, 5000]))
    elif k == 3:
        n = draw(st.integers(28, 36))
    else:
        n = draw(st.integers(0, 200))
    bits = draw(bits_of_len(n))
    cls = draw(cls_st)
    return {'bits': bits, 'cls': cls, 'pos': draw(st.integers(0, n)) if cls in STREAMS and draw(st.booleans()) else 0, 'lsb0': draw(st.sampled_from([False, False, True])),
            'file': draw(st.integers(0, 9)) == 0 and n % 8 == 0 and n > 0,
            'route': draw(st.sampled_from(ROUTES_FOR_PRINT)) if draw(st.integers(0, 4)) == 0 else None}


def run_strrepr(case):
    bs = bitstring_module()
    bits, cls = case['bits'], case['cls']
    n = len(bits)
    bs.options.lsb0 = case['lsb0']
    ns = {'Bits': bs.Bits, 'BitArray': bs.BitArray, 'ConstBitStream': bs.ConstBitStream, 'BitStream': bs.BitStream, 'Array': bs.Array}
    with files.TempDir() as tmp:
        if case['file']:
            x = cls_of(cls)(filename=tmp.new(to_bytes(bits)))
            if case['pos'] and cls in STREAMS:
                x.pos = case['pos']
        elif case.get('route'):
            from vf.common import build_route
            x = build_route(cls, bits, case['route'], n % 7)
            require(x.bin == bits, 'HARNESS: route did not build the content')
            if case['pos'] and cls in STREAMS:
                x.pos = case['pos']
        else:
            x = mk(cls, bits, case['pos'] if cls in STREAMS else None)
        s = attempt(str, x)
        r = attempt(repr, x)
        require(isinstance(s, str) and isinstance(r, str), 'str()/repr() failed', s=s, r=r, n=n)
        if n <= 1000:
            back = attempt(bs.Bits, s) if s else bs.Bits()
            require(not is_raised(back) and back.bin == bits, 'Bits(str(s)) != s', text=s[:80], got=back if is_raised(back) else back.bin[:80], expected=bits[:80], n=n, lsb0=case['lsb0'])
            require('...' not in s, 'an untruncated str contains the truncation marker')
            e = attempt(eval, r, dict(ns))
            require(not is_raised(e), 'repr(s) does not evaluate', text=r[:120], got=e)
            require(type(e) is type(x) and e.bin == bits, 'eval(repr(s)) is not an equal object of the same class', text=r[:120], got_cls=type(e).__name__)
            if cls in STREAMS:
                require(e.pos == x.pos, 'eval(repr(s)) has a different pos', got=e.pos, expected=x.pos, text=r[:120])
        else:
            require(s.endswith('...'), 'a truncated str must be marked with ...', text=s[-20:])
            shown = s[:-3]
            head = attempt(bs.Bits, shown)
            require(not is_raised(head) and bits.startswith(head.bin) and len(head) >= 1000, 'the shown part of a truncated str is not a prefix of the value', n=n, shown=len(head) if not is_raised(head) else head)
            if not case['file']:
                require(f'length={n}' in r and '...' in r, 'a truncated repr must carry ... and the true length', text=r[-60:])
            else:
                e = attempt(eval, r, dict(ns))
                require(not is_raised(e) and e.bin == bits and type(e) is type(x), 'repr of a file-backed object does not evaluate back', text=r[:160])
        del x
    return {'nt': n % 4 != 0 and n > 0, 'labels': [cls, lenbucket(n), 'lsb0' if case['lsb0'] else 'msb0', 'file' if case['file'] else 'mem']}


# ------------------------------------------------------------------------------------------- pp

@st.composite
def pp_case(draw, tier):
    bits = draw(bits_st(max_len=260 if tier == 'quick' else 900))
    nf = draw(st.sampled_from([1, 1, 2]))
    names = [draw(st.sampled_from(['bin', 'hex', 'oct', 'b', 'h', 'o'])) for _ in range(nf)]
    gmode = draw(st.sampled_from(['none', 'none', 'zero', 'explicit', 'explicit', 'explicit']))
    per = [BITS_PER_CHAR[codecs.canon(x)] for x in names]
    l = per[0] * per[-1] // math.gcd(per[0], per[-1])
    if gmode == 'explicit':
        g = draw(st.sampled_from([l, 2 * l, 4 * l, 8, 12, 16, 24, 32, 48, 64, l * draw(st.integers(1, 5)), draw(st.integers(1, 64))]))
    else:
        g = None
    where = draw(st.sampled_from(['first', 'second', 'both'])) if nf == 2 else 'first'
    return {'bits': bits, 'names': names, 'gmode': gmode, 'g': g, 'where': where, 'width': draw(st.sampled_from([0, 1, 10, 20, 40, 60, 80, 120, 200]) | st.integers(0, 200)),
            'sep': draw(st.sampled_from([' ', ' ', ' ', '', '_', ' | ', '--', ',', '  ', '{', '}', '{}', ' {{ ', '{:}', '%s', '\\', '%', '\t'])), 'show_offset': draw(st.booleans()), 'lsb0': draw(st.sampled_from([False, False, False, True])),
            'no_color': draw(st.sampled_from([False, False, False, True, True, 1, 'yes'])), 'cls': draw(cls_st), 'colon': draw(st.booleans())}


def fmt_text(case):
    out = []
    for i, nm in enumerate(case['names']):
        has = case['gmode'] != 'none' and (case['where'] == 'both' or (case['where'] == 'first' and i == 0) or (case['where'] == 'second' and i == 1))
        if not has:
            out.append(nm)
        else:
            g = 0 if case['gmode'] == 'zero' else case['g']
            out.append(f'{nm}:{g}' if case['colon'] else f'{nm}{g}')
    return ', '.join(out)


def strip_colour(t):
    return re.sub(r'\x1b\[[0-9;]*m', '', t)


def run_pp(case):
    bs = bitstring_module()
    bits = case['bits']
    n = len(bits)
    names = [codecs.canon(x) for x in case['names']]
    per = [BITS_PER_CHAR[x] for x in names]
    bs.options.lsb0 = case['lsb0']
    bs.options.no_color = case['no_color']
    x = mk(case['cls'], bits)
    fmt = fmt_text(case)
    out = io.StringIO()
    res = attempt(x.pp, fmt, case['width'], case['sep'], case['show_offset'], out)
    gmode = case['gmode']
    # ---- when may it refuse?
    if gmode == 'explicit':
        g = case['g']
        group_ok = all(g % p == 0 for p in per)
        trailing = n % g
        body = n - trailing
    elif gmode == 'zero':
        g = 0
        group_ok = True
        trailing = 0
        body = n
    else:
        g = None
        group_ok = True
        trailing = 0
        body = n
    length_ok = True
    if gmode != 'explicit':
        length_ok = all(n % p == 0 for p in per)
    if is_raised(res):
        require(isinstance(res.exc, ValueError), 'pp raised something other than InterpretError/ValueError', got=res, fmt=fmt)
        require(not (group_ok and length_ok), 'pp raised although the data can be shown in this format', got=res, fmt=fmt, n=n)
        require(x.bin == bits, 'pp changed the object')
        return {'nt': False, 'labels': ['refused']}
    text = out.getvalue()
    # ---- colour
    if case['no_color']:
        require(ESC not in text, 'pp output contains terminal escape sequences although options.no_color is set', fmt=fmt)
    plain = strip_colour(text)
    require(ESC not in plain, 'unrecognised escape sequence in pp output')
    lines = plain.split('\n')
    require(lines[0].startswith(f'<{case["cls"]}, fmt=') and lines[0].endswith('['), 'pp header line malformed', got=lines[0])
    require(f'length={n} bits' in lines[0], 'pp header does not give the true length', got=lines[0])
    # footer
    k = len(lines) - 1
    while k > 0 and lines[k] == '':
        k -= 1
    footer = lines[k]
    require(footer.startswith(']'), 'pp footer malformed', got=footer)
    reported = ''
    m = re.match(r'^\] \+ trailing_bits = (.*)$', footer)
    if m:
        tb = attempt(bs.Bits, m.group(1))
        require(not is_raised(tb), 'reported trailing bits do not parse', got=m.group(1))
        reported = tb.bin
    else:
        require(footer == ']', 'pp footer malformed', got=footer)
    body_lines = lines[1:k]
    sep = case['sep']
    fsep = ' : '
    groups_all = []
    first_len = None
    for li, line in enumerate(body_lines):
        raw_line = line
        core = line
        if case['show_offset']:
            if case['lsb0']:
                mm = re.match(r'^(.*) :(\d+) *$', core)
                require(mm is not None, 'lsb0 pp line has no offset suffix', got=line)
                core = mm.group(1)
            else:
                mm = re.match(r'^ *(\d+): (.*)$', core)
                require(mm is not None, 'pp line has no offset prefix', got=line)
                core = mm.group(2)
        parts = core.split(fsep) if len(names) == 2 else [core]
        require(len(parts) == len(names), 'pp line does not have one section per format', got=line, fmt=fmt)
        decoded = []
        for p_i, part in enumerate(parts):
            part = part.strip(' ')
            core_sep = sep.strip(' ')
            if core_sep:
                toks = [t.replace(' ', '') for t in part.split(core_sep)]
            else:
                toks = part.split()   # separator is blank or empty: groups (or the whole unseparated run) are blank-delimited
            toks = [t for t in toks if t != ''] or ([''] if n == 0 else [])
            base = names[p_i]
            bl = []
            for t in toks:
                require(all(ch in '0123456789abcdef' for ch in t) and t != '' or (t == '' and n == 0), 'unexpected characters in a pp group', got=t, line=line)
                if base == 'bin':
                    bl.append(t)
                elif base == 'hex':
                    bl.append(''.join(format(int(ch, 16), '04b') for ch in t))
                else:
                    bl.append(''.join(format(int(ch, 8), '03b') for ch in t))
            decoded.append(bl)
        if len(decoded) == 2:
            require(''.join(decoded[0]) == ''.join(decoded[1]), 'the two formats on one pp line show different bits', line=line)
        if sep == '' and g:
            # re-split an unseparated line into groups of g bits
            joined = ''.join(decoded[0])
            decoded[0] = [joined[i:i + g] for i in range(0, len(joined), g)]
        elif sep == '' and g is None:
            joined = ''.join(decoded[0])
            if not case['lsb0']:
                decoded[0] = [joined]
            elif len(names) == 1:
                dg = {'bin': 8, 'hex': 8, 'oct': 12}[names[0]]    # documented default group sizes
                decoded[0] = [t[i:i + dg] for t in decoded[0] for i in range(0, len(t), dg)]
            else:
                return {'nt': False, 'labels': ['lsb0-unseparated-two-formats-skipped']}   # group order cannot be recovered without a separator
        groups_all.append(decoded[0])
        # ---- layout: line length
        is_last = li == len(body_lines) - 1
        visible = raw_line.rstrip(' ') if is_last else raw_line
        ngroups = len(decoded[0])
        if g == 0:
            single = sum(len(b) for b in decoded[0]) <= (24 if len(names) == 2 else max(per))
        else:
            single = ngroups <= 1
        if not single:
            require(len(visible) <= case['width'], 'a pp line with more than one group exceeds the width', line=raw_line, length=len(visible), width=case['width'], fmt=fmt)
        if first_len is None:
            first_len = len(raw_line)
        # ---- never splits a group (explicit group size): every group is whole
        if gmode == 'explicit':
            for b in decoded[0]:
                require(len(b) == g, 'pp split a group across lines or printed a partial group', group=b, g=g, line=line)
    flat = [b for ln in groups_all for b in ln]
    if case['lsb0']:
        shown = ''.join(reversed(flat))
        total = reported + shown
    else:
        shown = ''.join(flat)
        total = shown + reported
    require(total == bits, 'the digits printed by pp (plus the reported trailing bits) are not exactly the data', fmt=fmt, n=n, got=total[:100], expected=bits[:100], lsb0=case['lsb0'],
            reported_trailing=reported)
    require(len(reported) == trailing, 'pp reported the wrong number of trailing bits', got=len(reported), expected=trailing, fmt=fmt)
    if not case['no_color'] and n:
        require(ESC in text, 'colour is on but the output has no escape sequences')
    # the colour setting must be honoured at every call, whatever it was before (history inside the case)
    for flip in (not case['no_color'], case['no_color'], not case['no_color']):
        bs.options.no_color = flip
        o2 = io.StringIO()
        x.pp(fmt, case['width'], case['sep'], case['show_offset'], o2)
        t2 = o2.getvalue()
        if flip:
            require(ESC not in t2, 'pp output contains escape sequences although options.no_color is set (after the option was toggled)', fmt=fmt)
        elif n:
            require(ESC in t2, 'colour was switched on again but the output has no escape sequences')
        require(strip_colour(t2) == plain, 'pp output differs (beyond colour) after toggling options.no_color')
    bs.options.no_color = case['no_color']
    require(x.bin == bits, 'pp changed the object')
    return {'nt': len(body_lines) >= 2 or bool(reported), 'labels': [fmt.replace(' ', '')[:12], 'lines=%d' % min(len(body_lines), 5), 'lsb0' if case['lsb0'] else 'msb0', 'color' if not case['no_color'] else 'nocolor']}


# ------------------------------------------------------------------------------------------- Array repr

@st.composite
def arr_case(draw, tier):
    dj = draw(c14.dtype_st())
    n = draw(st.integers(0, 8))
    items = [format(draw(st.integers(0, 2 ** 72)) % (1 << dj['w']), f"0{dj['w']}b") for _ in range(n)]
    trailing = draw(bits_of_len(draw(st.integers(1, max(1, dj['w'] - 1))))) if dj['w'] > 1 and draw(st.integers(0, 2)) == 0 else ''
    return {'dtype': dj, 'items': items, 'trailing': trailing, 'prelude': draw(st.sampled_from([None, None, 2, 4, 0.5, 2 ** 10]))}


def run_arr(case):
    bs = bitstring_module()
    dt = c14.dt_from_json(case['dtype'])
    items = [c14.canonical(dt, b) for b in case['items']]
    vals = [dt.dec(b) for b in items]
    if any(isinstance(v, float) and (math.isnan(v) or math.isinf(v)) for v in vals):
        return {'nt': False, 'labels': ['nonfinite-skipped']}
    if case.get('prelude') is not None and dt.kind in ('uint', 'int', 'float'):
        # something with the same dtype but a scale was printed just before: what is printed next must not depend on it
        d0 = dt.make(bs)
        sd = attempt(lambda: bs.Dtype(d0.name, d0.length, scale=case['prelude']))
        if not is_raised(sd):
            attempt(str, sd)
            attempt(repr, sd)
            sa = attempt(bs.Array, sd, [])
            if not is_raised(sa):
                rs = attempt(repr, sa)
                require(isinstance(rs, str) and 'scale' in rs, 'repr of an Array with a scaled dtype does not show the scale', got=rs)
    a = bs.Array(dt.make(bs), [c14.value_arg(dt, b, bs) for b in items])
    if case['trailing']:
        a.data.append(mk('Bits', case['trailing']))
    r = attempt(repr, a)
    require(isinstance(r, str), 'Array repr failed', got=r)
    ns = {'Bits': bs.Bits, 'BitArray': bs.BitArray, 'ConstBitStream': bs.ConstBitStream, 'BitStream': bs.BitStream, 'Array': bs.Array, 'Dtype': bs.Dtype}
    e = attempt(eval, r, ns)
    require(not is_raised(e), 'Array.__repr__ does not evaluate', text=r[:160], got=e)
    require(isinstance(e, bs.Array) and e.data.bin == a.data.bin and e.equals(a), 'eval(repr(array)) is not an equal Array', text=r[:160], got=e.data.bin[:80] if isinstance(e, bs.Array) else e,
            expected=a.data.bin[:80])
    return {'nt': len(items) >= 1, 'labels': [dt.kind, 'trailing' if case['trailing'] else 'clean']}


def selftest():
    bs = bitstring_module()
    assert str(bs.Bits('0b1')) == '0b1' and str(bs.Bits('0xff')) == '0xff'
    assert strip_colour('\x1b[35mabc\x1b[0m') == 'abc'


def enum_lengths(tier):
    """every length 0..1100 (quick) / 0..2100 (thorough) x the four classes, contents from a fixed pseudo-random bit pattern: no length threshold of str/repr
    (digit selection at the residues, the 1000-bit / 250-character truncation) can be missed"""
    import hashlib
    stream = ''.join(format(b, '08b') for b in hashlib.shake_128(b'c19').digest(400))
    top = 1100 if tier == 'quick' else 2100
    for n in range(0, top + 1):
        for i, cls in enumerate(('Bits', 'BitArray', 'ConstBitStream', 'BitStream')):
            off = (n * 7 + i * 13) % 1000
            yield {'bits': stream[off:off + n], 'cls': cls, 'pos': (n // 3) if cls in STREAMS and n % 2 else 0, 'lsb0': (n + i) % 5 == 0, 'file': False}


SUBCHECKS = [
    Sub('C19.str_repr_all_lengths', run_strrepr, enum=enum_lengths,
        enum_exhaustive_note='every length 0..1100 (quick) / 0..2100 (thorough) x 4 classes (fixed pseudo-random contents, lsb0 for a fifth of them)'),
    Sub('C19.str_repr_roundtrip', run_strrepr, strategy=strrepr_case, examples={'quick': 8000, 'thorough': 120000}, ambient=('bytealigned',)),
    Sub('C19.pp_digits_layout_color', run_pp, strategy=pp_case, examples={'quick': 12000, 'thorough': 200000}),
    Sub('C19.array_repr', run_arr, strategy=arr_case, examples={'quick': 5000, 'thorough': 60000}),
]
