"""C01 - every bitstring behaves as the Python sequence of its bits (len, bool, iter, index, slice, +, *)."""
import itertools

from hypothesis import strategies as st

from vf.engine import Sub, require
from vf import files
from vf.common import (bits_st, bits_of_len, index_st, slice_st, cls_st, mk, attempt, is_raised, lenbucket, CLASSES,
                       make_promotable, promo_ok, PROMO_KINDS, MEM_ROUTES, build_route, cls_of)

RULE = ("cases = (class, content, operation, arguments, construction route of each operand); non-trivial = non-empty content AND "
        "(index/slice selects >=1 bit or is out of range, OR operands of two different classes / a promotable, OR repeat count >= 2, "
        "OR len/bool/iter on >= 2 bits); distinct = SHA-1 of the canonical JSON case. small_world enumerates every content up to a "
        "length bound x every (start, stop, step) triple x 4 classes.")
ASSUMPTIONS = ["s[i] is compared by value with the i-th bit (True == 1)",
               "left-hand promotable operands are those whose own + defers to the bitstring (str, bytes, bytearray, memoryview, list, tuple, bitarray, array.array)"]

LEFT_PROMO = ['str_bin', 'str_hex', 'bytes', 'bytearray', 'memoryview', 'list', 'tuple', 'bitarray', 'array', 'list_truthy']
RIGHT_PROMO = [k for k in PROMO_KINDS if k not in CLASSES and k != 'BytesIO'] + ['BytesIO']


def selftest():
    import bitstring
    assert bitstring.Bits('0b00110')[1:4].bin == '011'
    assert (bitstring.BitArray('0b1') + '0b0').bin == '10'


@st.composite
def route_st(draw):
    return [draw(st.sampled_from(MEM_ROUTES)), draw(st.integers(0, 50))]


def build(cls, bits, route):
    return build_route(cls, bits, route[0], route[1])


# --------------------------------------------------------------------------------------------- len/bool/iter

@st.composite
def lbi_case(draw, tier):
    return {'cls': draw(cls_st), 'bits': draw(bits_st(max_len=17000 if draw(st.integers(0, 3)) == 0 else 1100, long=True)), 'route': draw(route_st())}


def run_lbi(case):
    d = case['bits']
    s = build(case['cls'], d, case['route'])
    require(type(s).__name__ == case['cls'], 'construction route returned another class', got=type(s).__name__)
    require(len(s) == len(d), 'len differs', got=len(s), expected=len(d))
    require(bool(s) is (d != ''), 'truth value differs', got=bool(s))
    exp = [c == '1' for c in d]
    got = list(s)
    require(got == exp, 'iteration differs from the bit sequence', got=got[:40], expected=exp[:40])
    require(list(iter(s)) == exp, 'iter() differs')
    require(list(reversed(s)) == exp[::-1], 'reversed() differs')
    require(s.bin == d, 'bin differs from intended content')
    return {'nt': len(d) >= 2, 'labels': [case['cls'], case['route'][0], lenbucket(len(d))]}


# --------------------------------------------------------------------------------------------- index

@st.composite
def index_case(draw, tier):
    bits = draw(bits_st(max_len=300, long=False))
    return {'cls': draw(cls_st), 'bits': bits, 'route': draw(route_st()), 'i': draw(index_st(len(bits)))}


def run_index(case):
    d = case['bits']
    s = build(case['cls'], d, case['route'])
    i = case['i']
    res = attempt(lambda: s[i])
    try:
        exp = d[i] == '1'
    except IndexError:
        require(is_raised(res, IndexError), 'out-of-range index must raise IndexError', got=res, i=i, n=len(d))
        return {'nt': d != '', 'labels': ['raises', case['cls']]}
    require(not is_raised(res), 'in-range index raised', got=res, i=i, n=len(d))
    require(res == exp and isinstance(res, (bool, int)), 's[i] differs from the bit', got=res, expected=exp, i=i)
    return {'nt': True, 'labels': ['neg' if i < 0 else 'pos', case['cls']]}


# --------------------------------------------------------------------------------------------- slice

@st.composite
def slice_case(draw, tier):
    bits = draw(bits_st(max_len=300 if tier == 'quick' else 2100, long=True))
    sl = draw(slice_st(len(bits), steps=[None, 1, 2, 3, 7, 8, -1, -2, -3, -8, 0, 100, -100]))
    return {'cls': draw(cls_st), 'bits': bits, 'route': draw(route_st()), 'slice': sl, 'pos': draw(st.integers(0, 3))}


def run_slice(case):
    d = case['bits']
    s = build(case['cls'], d, case['route'])
    a, b, c = case['slice']
    res = attempt(lambda: s[a:b:c])
    if c == 0:
        require(is_raised(res, ValueError), 'slice step 0 must raise ValueError (as for str)', got=res)
        return {'nt': d != '', 'labels': ['step0']}
    exp = d[a:b:c]
    require(not is_raised(res), 'slicing raised', got=res, slice=case['slice'], n=len(d))
    require(type(res) is type(s), 'slice has a different class', got=type(res).__name__, expected=case['cls'])
    require(res.bin == exp and len(res) == len(exp), 'slice differs from the str slice', got=res.bin[:80], expected=exp[:80], slice=case['slice'], n=len(d))
    require(s.bin == d, 'slicing changed the source')
    return {'nt': exp != '', 'labels': ['step=%s' % c, case['cls'], 'empty' if not exp else 'nonempty']}


# --------------------------------------------------------------------------------------------- concatenation

@st.composite
def concat_case(draw, tier):
    a = draw(bits_st(max_len=200, long=False))
    b = draw(bits_st(max_len=200, long=False))
    side = draw(st.sampled_from(['right', 'right', 'left']))
    cls = draw(cls_st)
    if side == 'right':
        if draw(st.booleans()):
            other = draw(cls_st)
        else:
            ok = [k for k in RIGHT_PROMO if promo_ok(k, b)]
            other = draw(st.sampled_from(ok))
    else:
        ok = [k for k in LEFT_PROMO if promo_ok(k, a)]
        other = draw(st.sampled_from(ok))
    return {'cls': cls, 'a': a, 'b': b, 'side': side, 'other': other, 'route': draw(route_st()), 'route2': draw(route_st()),
            'pos': draw(st.integers(0, 5))}


def run_concat(case):
    a, b = case['a'], case['b']
    cls, other = case['cls'], case['other']
    if case['side'] == 'right':
        left = build(cls, a, case['route'])
        if cls in ('ConstBitStream', 'BitStream') and len(a):
            left.pos = case['pos'] % (len(a) + 1)
        right = build(other, b, case['route2']) if other in CLASSES else make_promotable(other, b)
        res = attempt(lambda: left + right)
        lcheck, rcheck = (left, a), (right if other in CLASSES else None, b)
    else:
        left = make_promotable(other, a)
        right = build(cls, b, case['route'])
        res = attempt(lambda: left + right)
        lcheck, rcheck = (None, a), (right, b)
    exp = a + b
    require(not is_raised(res), 'concatenation raised', got=res, case=case)
    require(res.bin == exp and len(res) == len(exp), 'a + b differs from string concatenation', got=res.bin[:80], expected=exp[:80])
    require(type(res).__name__ == cls, 'result class is not the class of the left bitstring operand '
            '(or of the bitstring operand when the left one is a promotable)', got=type(res).__name__, expected=cls, other=other,
            la=len(a), lb=len(b))
    for o, d in (lcheck, rcheck):
        if o is not None:
            require(o.bin == d, '+ modified an operand')
    nt = bool(a and b) and other != cls
    return {'nt': nt, 'labels': [case['side'], cls, other, 'a<b' if len(a) < len(b) else 'a>=b']}


# --------------------------------------------------------------------------------------------- repetition

REPEATS = [-2, -1, 0, 1, 2, 3, 4, 5, 7, 8, 9, 15, 16, 17, 31, 32, 33, 63, 64, 65, 70]


@st.composite
def repeat_case(draw, tier):
    bits = draw(bits_st(max_len=70, long=False))
    return {'cls': draw(cls_st), 'bits': bits, 'route': draw(route_st()), 'n': draw(st.sampled_from(REPEATS) | st.integers(-3, 70)),
            'reflected': draw(st.booleans())}


@st.composite
def big_repeat_case(draw, tier):
    """results of 0.1 - 5 Mbit: short content x large count, long content x small count, both around powers of two"""
    from vf.common import big_bits_st
    k = draw(st.integers(0, 3))
    if k == 0:
        bits = draw(bits_st(max_len=9, min_len=1))
        n = draw(st.sampled_from([1 << 17, (1 << 20) + 1, 3000000 // max(len(bits), 1), (1 << 21) // len(bits) + 1, 250000]))
    elif k == 1:
        bits = draw(bits_of_len(draw(st.sampled_from([1000, 1023, 4097, 65537]))))
        n = draw(st.sampled_from([33, 257, 1025, 2100, 5000])) if len(bits) < 5000 else draw(st.sampled_from([3, 17, 33, 40]))
    else:
        bits = draw(big_bits_st())
        n = draw(st.sampled_from([2, 3, 4, 5]))
    return {'cls': draw(cls_st), 'bits': bits, 'route': ['bin', 0], 'n': n, 'reflected': draw(st.booleans())}


def run_repeat(case):
    from vf.common import expand_bits
    d, n = expand_bits(case['bits']), case['n']
    s = build(case['cls'], d, case['route'])
    res = attempt((lambda: n * s) if case['reflected'] else (lambda: s * n))
    if n < 0:
        require(is_raised(res, ValueError), 'negative repeat count must raise ValueError', got=res)
        return {'nt': d != '', 'labels': ['neg']}
    require(not is_raised(res), 'repetition raised', got=res, n=n)
    exp = d * n
    require(res.bin == exp and len(res) == len(exp), 's * n differs from str repetition', got=res.bin[:80], expected=exp[:80], n=n, d=d)
    require(type(res).__name__ == case['cls'], 'repetition changed the class', got=type(res).__name__)
    require(s.bin == d, '* modified the operand')
    return {'nt': d != '' and n >= 2, 'labels': ['n=%d' % min(n, 9), case['cls']]}


# --------------------------------------------------------------------------------------------- small world (exhaustive)


def small_world(tier):
    maxlen = 5 if tier == 'quick' else 7
    steps = [None, 1, -1, 2, -2, 3, -3]
    for n in range(0, maxlen + 1):
        rng = [None] + list(range(-n - 2, n + 3))
        for v in range(1 << n):
            d = format(v, f'0{n}b') if n else ''
            yield {'bits': d, 'n': n}


def run_small(case):
    d = case['bits']
    n = len(d)
    rng = [None] + list(range(-n - 2, n + 3))
    steps = [None, 1, -1, 2, -2, 3, -3]
    objs = [mk(c, d) for c in CLASSES]
    cnt = 0
    for s in objs:
        require(len(s) == n and bool(s) is (n > 0) and list(s) == [c == '1' for c in d], 'len/bool/iter differ', d=d)
        for i in range(-n - 2, n + 3):
            res = attempt(lambda: s[i])
            if -n <= i < n:
                require(res == (d[i] == '1'), 'index differs', d=d, i=i, got=res)
            else:
                require(is_raised(res, IndexError), 'index out of range must raise IndexError', d=d, i=i, got=res)
        for a in rng:
            for b in rng:
                for c in steps:
                    got = s[a:b:c]
                    if got.bin != d[a:b:c] or type(got) is not type(s):
                        require(False, 'slice differs from str', d=d, slice=[a, b, c], got=got.bin, expected=d[a:b:c], cls=type(s).__name__)
                    cnt += 1
    return {'nt': n > 0, 'labels': ['n=%d' % n]}


# --------------------------------------------------------------------------------------------- file-backed objects (incl. large)

@st.composite
def file_case(draw, tier):
    from vf.common import big_bits_st
    big = draw(st.integers(0, 3)) == 0
    bits = draw(big_bits_st()) if big else draw(bits_st(max_len=600, long=True))
    n = bits['n'] if big else len(bits)
    return {'cls': draw(cls_st), 'bits': bits, 'route': draw(st.sampled_from(files.FILE_ROUTES)), 'salt': draw(st.integers(0, 40)),
            'idx': [draw(index_st(n)) for _ in range(4)], 'slices': [draw(slice_st(n)) for _ in range(3)], 'other': draw(bits_st(max_len=24)), 'k': draw(st.integers(0, 3))}


def run_file(case):
    from vf.common import expand_bits
    d = expand_bits(case['bits'])
    n = len(d)
    with files.TempDir() as tmp:
        s = files.build_file_route(case['cls'], d, case['route'], case['salt'], tmp)
        require(len(s) == n and bool(s) is (n > 0), 'len/bool of a file-backed bitstring differ', got=len(s), expected=n, route=case['route'])
        for i in case['idx'] + [n, -n - 1, n - 1, -1, 0, -n]:
            res = attempt(lambda: s[i])
            if -n <= i < n:
                require(res == (d[i] == '1') and not is_raised(res), 'index on a file-backed bitstring differs', i=i, n=n, got=res, route=case['route'])
            else:
                require(is_raised(res, IndexError), 'out-of-range index on a file-backed bitstring must raise IndexError', i=i, n=n, got=res, route=case['route'])
        for a, b, c in case['slices'] + [[None, None, -1], [-3, None, None], [None, 5, None]]:
            if n > 100000 and c is not None and abs(c) < 3 and (a is None or b is None):
                continue
            res = attempt(lambda: s[a:b:c])
            exp = d[a:b:c]
            require(not is_raised(res) and len(res) == len(exp) and res.bin == exp, 'slice of a file-backed bitstring differs', slice=[a, b, c], n=n, route=case['route'],
                    got=res if is_raised(res) else len(res), expected=len(exp))
        o = mk('Bits', case['other'])
        r = s + o
        require(len(r) == n + len(o) and r[n:].bin == case['other'] and r[:64].bin == (d + case['other'])[:64] and type(r).__name__ == case['cls'], 's + t differs for a file-backed s', n=n, got=len(r), route=case['route'])
        r = o + s
        require(len(r) == n + len(o) and r[:len(o) + 64].bin == (case['other'] + d)[:len(o) + 64] and r[-64:].bin == (case['other'] + d)[-64:], 't + s differs for a file-backed s', n=n, got=len(r))
        if n <= 700000:
            r = s * case['k']
            require(len(r) == n * case['k'] and (case['k'] == 0 or r[-32:].bin == (d * case['k'])[-32:]), 's * n differs for a file-backed s', n=n, k=case['k'], got=len(r))
        if n <= 5000:
            require(list(s) == [c == '1' for c in d], 'iteration differs')
        else:
            it = iter(s)
            require([next(it) for _ in range(40)] == [c == '1' for c in d[:40]], 'iteration differs')
        del s, r
    return {'nt': n > 0, 'labels': [case['route'], 'big' if n > 30000 else 'small', case['cls']]}


SUBCHECKS = [
    Sub('C01.len_bool_iter', run_lbi, strategy=lbi_case, ambient=('bytealigned',), examples={'quick': 3000, 'thorough': 30000}),
    Sub('C01.index', run_index, strategy=index_case, ambient=('bytealigned',), examples={'quick': 6000, 'thorough': 80000}),
    Sub('C01.slice', run_slice, strategy=slice_case, ambient=('bytealigned',), examples={'quick': 12000, 'thorough': 200000}),
    Sub('C01.concat', run_concat, strategy=concat_case, ambient=('bytealigned',), examples={'quick': 12000, 'thorough': 200000}),
    Sub('C01.repeat', run_repeat, strategy=repeat_case, ambient=('bytealigned',), examples={'quick': 6000, 'thorough': 80000}),
    Sub('C01.repeat_big', run_repeat, strategy=big_repeat_case, examples={'quick': 120, 'thorough': 1500}),
    Sub('C01.file_backed', run_file, strategy=file_case, examples={'quick': 1600, 'thorough': 20000}),
    Sub('C01.small_world', run_small, enum=small_world, examples={'quick': 0, 'thorough': 0},
        enum_exhaustive_note='every content of length <= 5 (quick) / <= 7 (thorough) x every index in [-n-2, n+2] x every (start, stop) in '
                             '({None} u [-n-2, n+2])^2 x step in {None, +-1, +-2, +-3} x 4 classes'),
]
