"""C13 - equality and hashing form a consistent contract across classes and routes."""
from hypothesis import strategies as st

from vf.engine import Sub, require, bitstring_module, HarnessError
from vf.common import (cls_of, bits_st, bits_of_len, cls_st, mk, attempt, is_raised, lenbucket, CLASSES, IMMUTABLE, MUTABLE, STREAMS,
                       make_promotable, promo_ok, PROMO_KINDS, MEM_ROUTES, build_route)
from vf import files

RULE = ("cases = pairs/triples of (class, content, construction route, stream pos) where the second content is derived from the first "
        "(equal / one bit flipped at start, middle or end / proper prefix / same integer value with another length / unrelated), plus "
        "promotable and non-promotable right- and left-hand operands; lengths include 0, 1999-2001, 3599-3601 and > 8000. Non-trivial = "
        "operands built by different routes or classes (eq), or length > 2000 (hash); distinct = SHA-1 of the case.")
ASSUMPTIONS = ["strings that do not parse and dicts are not generated as operands (the statement lists int, float, None and arbitrary objects for the False-not-error clause)",
               "ordering operators are not part of the statement and are not checked"]

ALL_ROUTES = MEM_ROUTES + files.FILE_ROUTES


@st.composite
def related_st(draw, a):
    """Content related to a: label + bits."""
    n = len(a)
    k = draw(st.integers(0, 9))
    if k <= 3 or n == 0:
        if n == 0 and k > 3:
            return 'other', draw(bits_st(max_len=10))
        return 'equal', a
    if k <= 6:
        where = draw(st.sampled_from(['start', 'middle', 'end', 'any']))
        i = {'start': 0, 'middle': n // 2, 'end': n - 1}.get(where)
        if i is None:
            i = draw(st.integers(0, n - 1))
        return 'flip_' + where, a[:i] + ('1' if a[i] == '0' else '0') + a[i + 1:]
    if k == 7:
        return 'prefix', a[:draw(st.integers(0, n - 1))]
    if k == 8:
        return 'zero_extended', '0' * draw(st.integers(1, 9)) + a if draw(st.booleans()) else a + '0' * draw(st.integers(1, 9))
    return 'other', draw(bits_st(max_len=40))


@st.composite
def operand_st(draw, bits, routes=ALL_ROUTES):
    cls = draw(cls_st)
    r = draw(st.sampled_from(routes))
    salt = draw(st.integers(0, 60))
    pos = draw(st.integers(0, len(bits))) if cls in STREAMS and draw(st.booleans()) else 0
    return {'cls': cls, 'bits': bits, 'route': r, 'salt': salt, 'pos': pos}


VIAS = ['reverse', 'invert', 'rol', 'ror', 'byteswap', 'append_del', 'setbit', 'ixor', 'ilshift_ior', 'replace_none', 'overwrite_same']


def build_via(o):
    """an immutable object whose history is: a hashed immutable source -> a mutable copy -> one in-place edit that turns it into o['bits'] -> frozen again.
    Whatever was remembered for the source (hash, flags) must not survive into the result."""
    bs = bitstring_module()
    bits, via = o['bits'], o['via']
    n = len(bits)
    flip = ''.join('1' if c == '0' else '0' for c in bits)
    src = {'reverse': bits[::-1], 'invert': flip, 'rol': bits[-1:] + bits[:-1], 'ror': bits[1:] + bits[:1], 'append_del': bits, 'replace_none': bits, 'overwrite_same': bits,
           'byteswap': ''.join(reversed([bits[i:i + 8] for i in range(0, n - n % 8, 8)])) + bits[n - n % 8:], 'setbit': (('1' if bits[:1] == '0' else '0') + bits[1:]) if n else '',
           'ixor': flip, 'ilshift_ior': bits}[via]
    frozen_src = cls_of(o['cls'])(bin=src) if o['salt'] % 2 else cls_of(o['cls'])('0b' + src if src else '')
    hash(frozen_src)
    m = (bs.BitArray if o['salt'] % 3 else bs.BitStream)(frozen_src)
    if n:
        if via == 'reverse':
            m.reverse()
        elif via == 'invert':
            m.invert()
        elif via == 'rol':
            m.rol(1)
        elif via == 'ror':
            m.ror(1)
        elif via == 'byteswap':
            if n >= 8:
                m.byteswap(0, 0, n - n % 8)
        elif via == 'append_del':
            m.append('0b1')
            del m[-1:]
        elif via == 'setbit':
            m[0] = bits[0] == '1'
        elif via == 'ixor':
            m ^= bs.Bits(bin='1' * n)
        elif via == 'ilshift_ior':
            m <<= n
            m |= bs.Bits(bin=bits)
        elif via == 'replace_none':
            m.replace('0b1', '0b1')
        elif via == 'overwrite_same':
            m.overwrite(bs.Bits(bin=bits[:1]), 0)
    x = cls_of(o['cls'])(m)
    if x.bin != bits:
        raise HarnessError(f'history route {via} built {x.bin[:40]!r} instead of {bits[:40]!r}')
    if o['pos'] and o['cls'] in STREAMS:
        x.pos = o['pos']
    return x


def build(o, tmp):
    if o.get('via'):
        # the edits are written with msb0 positions: build under msb0, whatever the ambient mode of the case (like the positional routes)
        opt = bitstring_module().options
        was = opt.lsb0
        if was:
            opt.lsb0 = False
        try:
            return build_via(o)
        finally:
            if was:
                opt.lsb0 = True
    if o['route'] in files.FILE_ROUTES:
        x = files.build_file_route(o['cls'], o['bits'], o['route'], o['salt'], tmp)
    else:
        x = build_route(o['cls'], o['bits'], o['route'], o['salt'])
    if o['pos'] and o['cls'] in STREAMS:
        x.pos = o['pos']
    return x


def content_st(tier, big=True):
    return bits_st(max_len=(2100 if tier == 'quick' else 9000) if big else 300, long=big)


# ------------------------------------------------------------------------------------------- eq vs model

@st.composite
def eq_case(draw, tier):
    a = draw(content_st(tier))
    rel, b = draw(related_st(a))
    x, y = draw(operand_st(a)), draw(operand_st(b))
    if rel == 'equal' and draw(st.booleans()):
        y['route'], y['salt'] = x['route'], x['salt']   # same source (same file for file routes)
    # optionally flip one bit of a mutable operand in place after construction (length-preserving history)
    flip = draw(st.integers(0, max(len(a) - 1, 0))) if len(a) and draw(st.integers(0, 2)) == 0 else None
    return {'x': x, 'y': y, 'rel': rel, 'flip': flip}


def run_eq(case):
    with files.TempDir() as tmp:
        x, y = build(case['x'], tmp), build(case['y'], tmp)
        a, b = case['x']['bits'], case['y']['bits']
        flip = case.get('flip')
        if flip is not None and case['x']['cls'] in MUTABLE and flip < len(a):
            x.invert(flip)
            if bitstring_module().options.lsb0:
                flip = len(a) - 1 - flip      # positions are mirrored in lsb0 mode
            a = a[:flip] + ('1' if a[flip] == '0' else '0') + a[flip + 1:]
            require(x.bin == a, 'invert(i) did not flip exactly bit i')
        exp = a == b
        for l, r, name in ((x, y, 'x==y'), (y, x, 'y==x')):
            got = attempt(lambda: l == r)
            require(got is exp, f'{name} disagrees with equality of (len, bits)', got=got, expected=exp, rel=case['rel'], la=len(a), lb=len(b))
            ne = attempt(lambda: l != r)
            require(ne is (not exp), f'!= is not the negation of == ({name})', got=ne, eq=exp)
        require((x == x) is True and (y == y) is True, 'reflexivity violated')
        for o, cfg in ((x, case['x']), (y, case['y'])):
            if cfg['cls'] in STREAMS:
                require(o.pos == cfg['pos'], '== moved the stream position', pos=o.pos)
        if exp and case['x']['cls'] in IMMUTABLE and case['y']['cls'] in IMMUTABLE:
            require(hash(x) == hash(y), 'equal immutable bitstrings have different hashes', n=len(a))
        del x, y
    nt = (case['x']['cls'] != case['y']['cls'] or case['x']['route'] != case['y']['route']) and len(a) > 0
    return {'nt': nt, 'labels': [case['rel'], case['x']['route'], lenbucket(len(a)), 'eq' if exp else 'ne']}


# ------------------------------------------------------------------------------------------- promotable operands

@st.composite
def promo_case(draw, tier):
    a = draw(content_st(tier, big=False))
    rel, b = draw(related_st(a))
    kinds = [k for k in PROMO_KINDS if k not in CLASSES and promo_ok(k, b)]
    return {'x': draw(operand_st(a, MEM_ROUTES)), 'kind': draw(st.sampled_from(kinds)), 'b': b, 'rel': rel}


def run_promo(case):
    x = build(case['x'], None)
    a, b, kind = case['x']['bits'], case['b'], case['kind']
    exp = a == b
    got = attempt(lambda: x == make_promotable(kind, b))
    require(got is exp, 'bitstring == promotable disagrees with the model', got=got, expected=exp, kind=kind, a=a[:60], b=b[:60])
    got = attempt(lambda: make_promotable(kind, b) == x)
    require(got is exp, 'promotable == bitstring disagrees with the model', got=got, expected=exp, kind=kind, a=a[:60], b=b[:60])
    got = attempt(lambda: x != make_promotable(kind, b))
    require(got is (not exp), 'bitstring != promotable is not the negation', got=got, kind=kind)
    got = attempt(lambda: make_promotable(kind, b) != x)
    require(got is (not exp), 'promotable != bitstring is not the negation', got=got, kind=kind)
    require(x.bin == a, 'comparison modified the bitstring')
    # the same operand object compared again and again (a comparison must not use anything up), and a BytesIO whose stream position is not 0
    if kind not in ('gen', 'iter_truthy', 'map_truthy'):
        p = make_promotable(kind, b)
        if kind == 'BytesIO' and len(b) >= 8:
            p.seek(1 + len(b) // 16)
        seq = [attempt(lambda: x == p), attempt(lambda: x != p), attempt(lambda: p == x), attempt(lambda: x == p), attempt(lambda: p != x)]
        require(seq == [exp, not exp, exp, exp, not exp], 'repeated comparisons with the same operand object do not all agree with the model', got=seq, expected=exp, kind=kind)
    return {'nt': len(a) > 0, 'labels': [kind, case['rel'], 'eq' if exp else 'ne']}


# ------------------------------------------------------------------------------------------- non-promotable operands

class _Plain:
    pass


class _WithEqFalse:
    __hash__ = None


NONPROMO = ['int0', 'int1', 'intbig', 'negint', 'true', 'false', 'float', 'nan', 'none', 'object', 'plain', 'type', 'func', 'complex', 'ellipsis', 'notimpl']


def make_nonpromo(k, n):
    return {'int0': 0, 'int1': 1, 'intbig': n, 'negint': -1, 'true': True, 'false': False, 'float': 1.5, 'nan': float('nan'), 'none': None,
            'object': object(), 'plain': _Plain(), 'type': int, 'func': len, 'complex': 1j, 'ellipsis': Ellipsis, 'notimpl': NotImplemented}[k]


@st.composite
def nonpromo_case(draw, tier):
    a = draw(bits_st(max_len=70))
    return {'x': draw(operand_st(a, MEM_ROUTES)), 'kind': draw(st.sampled_from(NONPROMO))}


def run_nonpromo(case):
    x = build(case['x'], None)
    a = case['x']['bits']
    o = make_nonpromo(case['kind'], len(a))
    for name, f, exp in (('x == o', lambda: x == o, False), ('x != o', lambda: x != o, True), ('o == x', lambda: o == x, False), ('o != x', lambda: o != x, True)):
        got = attempt(f)
        require(got is exp, f'{name} with a non-promotable operand must be {exp}, not an error', got=got, kind=case['kind'], a=a[:40])
    require(x.bin == a, 'comparison modified the bitstring')
    return {'nt': True, 'labels': [case['kind'], case['x']['cls']]}


# ------------------------------------------------------------------------------------------- hashing

@st.composite
def hash_case(draw, tier):
    mode = draw(st.integers(0, 3))
    if mode == 0:
        a = draw(bits_st(max_len=300))
    else:
        n = draw(st.sampled_from([1599, 1600, 1601, 1999, 2000, 2001, 2002, 2008, 3599, 3600, 3601, 5000, 8193]) | st.integers(1990, 2600))
        a = draw(bits_of_len(n))
    rel, b = draw(related_st(a))
    cx = draw(st.sampled_from(IMMUTABLE))
    cy = draw(st.sampled_from(IMMUTABLE))
    x = draw(operand_st(a))
    y = draw(operand_st(b))
    x['cls'], y['cls'] = cx, cy
    if draw(st.integers(0, 3)) == 0:
        x['via'] = draw(st.sampled_from(VIAS))      # x has a history: hashed source -> mutable copy -> in-place edit -> frozen
    if draw(st.integers(0, 7)) == 0:
        y['via'] = draw(st.sampled_from(VIAS))
    return {'x': x, 'y': y, 'rel': rel}


def run_hash(case):
    with files.TempDir() as tmp:
        x, y = build(case['x'], tmp), build(case['y'], tmp)
        a, b = case['x']['bits'], case['y']['bits']
        hx, hy = attempt(hash, x), attempt(hash, y)
        require(isinstance(hx, int) and isinstance(hy, int), 'hash() of an immutable bitstring failed', hx=hx, hy=hy)
        require(hash(x) == hx, 'hash is not stable')
        if a == b:
            require(hx == hy, 'equal bitstrings hash differently', n=len(a), rx=case['x']['route'], ry=case['y']['route'])
            require(y in {x} and x in {y}, 'equal bitstrings are not interchangeable as set members')
            require({x: 1}[y] == 1, 'equal bitstrings are not interchangeable as dict keys')
        else:
            require(not (x == y), 'different contents compare equal')
            d = {x: 1}
            require(y not in d, 'unequal bitstring found as dict key', n=len(a), rel=case['rel'])
            require(len({x, y}) == 2, 'set of two unequal bitstrings collapsed')
        if case['x']['cls'] == 'ConstBitStream' and len(a):
            h0 = hash(x)
            x.pos = len(a) // 2
            require(hash(x) == h0, 'hash depends on pos')
        del x, y
    return {'nt': len(a) > 2000, 'labels': [case['rel'], lenbucket(len(a)), case['x']['route']]}


@st.composite
def unhash_case(draw, tier):
    return {'cls': draw(st.sampled_from(MUTABLE)), 'bits': draw(bits_st(max_len=40)), 'route': draw(st.sampled_from(MEM_ROUTES))}


def run_unhash(case):
    x = build_route(case['cls'], case['bits'], case['route'], 1)
    require(is_raised(attempt(hash, x), TypeError), 'hash() of a mutable bitstring must raise TypeError', got=attempt(hash, x))
    require(is_raised(attempt(lambda: {x}), TypeError), 'a mutable bitstring was accepted as a set member')
    require(is_raised(attempt(lambda: {x: 1}), TypeError), 'a mutable bitstring was accepted as a dict key')
    return {'nt': True, 'labels': [case['cls']]}


# ------------------------------------------------------------------------------------------- triples

@st.composite
def triple_case(draw, tier):
    a = draw(bits_st(max_len=2100, long=True))
    r1, b = draw(related_st(a))
    r2, c = draw(related_st(b if draw(st.booleans()) else a))
    return {'ops': [draw(operand_st(a, MEM_ROUTES)), draw(operand_st(b, MEM_ROUTES)), draw(operand_st(c, MEM_ROUTES))], 'rels': [r1, r2]}


def run_triple(case):
    objs = [build(o, None) for o in case['ops']]
    bits = [o['bits'] for o in case['ops']]
    for i in range(3):
        for j in range(3):
            got = attempt(lambda: objs[i] == objs[j])
            require(got is (bits[i] == bits[j]), 'equality matrix disagrees with the model (symmetry/transitivity)', i=i, j=j, got=got)
    if objs[0] == objs[1] and objs[1] == objs[2]:
        require(objs[0] == objs[2], 'transitivity violated')
    return {'nt': len(set(o['cls'] for o in case['ops'])) > 1 and len(bits[0]) > 0, 'labels': case['rels']}


@st.composite
def big_eq_case(draw, tier):
    from vf.common import big_bits_st
    spec = draw(big_bits_st())
    n = spec['n']
    flip = draw(st.sampled_from([None, None, 0, n - 1, n // 2, 799, 800, 801, n - 800, n - 801, 65536, n - 65537]))
    return {'spec': spec, 'flip': flip, 'cx': draw(cls_st), 'cy': draw(cls_st), 'rx': draw(st.sampled_from(['bin', 'bytes_offset', 'file_length_limited', 'file_offset', 'concat', 'file_name_full'])),
            'ry': draw(st.sampled_from(['bin', 'bitarray', 'file_length_limited', 'slice_of_longer', 'file_handle_full']))}


def run_big_eq(case):
    from vf.common import expand_bits
    a = expand_bits(case['spec'])
    b = a
    f = case['flip']
    if f is not None and 0 <= f < len(a):
        b = a[:f] + ('1' if a[f] == '0' else '0') + a[f + 1:]
    with files.TempDir() as tmp:
        x = build({'cls': case['cx'], 'bits': a, 'route': case['rx'], 'salt': 3, 'pos': 0}, tmp)
        y = build({'cls': case['cy'], 'bits': b, 'route': case['ry'], 'salt': 5, 'pos': 0}, tmp)
        exp = a == b
        require((x == y) is exp and (y == x) is exp and (x != y) is (not exp), '== / != on megabit operands disagrees with the model', n=len(a), flip=f, rx=case['rx'], ry=case['ry'])
        if case['cx'] in IMMUTABLE and case['cy'] in IMMUTABLE:
            hx, hy = hash(x), hash(y)
            if exp:
                require(hx == hy and y in {x}, 'equal megabit bitstrings hash differently', n=len(a), rx=case['rx'], ry=case['ry'])
            else:
                require(y not in {x: 1}, 'unequal megabit bitstring found as dict key', n=len(a), flip=f)
        del x, y
    return {'nt': True, 'labels': ['equal' if exp else 'flip@%s' % f, case['rx'], case['ry']]}


SUBCHECKS = [
    Sub('C13.eq_model', run_eq, strategy=eq_case, ambient=('bytealigned', 'lsb0'), examples={'quick': 10000, 'thorough': 150000}),
    Sub('C13.eq_promotable', run_promo, strategy=promo_case, ambient=('bytealigned', 'lsb0'), examples={'quick': 8000, 'thorough': 100000}),
    Sub('C13.eq_nonpromotable', run_nonpromo, strategy=nonpromo_case, ambient=('bytealigned', 'lsb0'), examples={'quick': 3000, 'thorough': 30000}),
    Sub('C13.hash_consistent', run_hash, strategy=hash_case, ambient=('bytealigned', 'lsb0'), examples={'quick': 8000, 'thorough': 100000}),
    Sub('C13.big_operands', run_big_eq, strategy=big_eq_case, examples={'quick': 200, 'thorough': 3000}),
    Sub('C13.unhashable', run_unhash, strategy=unhash_case, ambient=('bytealigned', 'lsb0'), examples={'quick': 600, 'thorough': 5000}),
    Sub('C13.triples', run_triple, strategy=triple_case, ambient=('bytealigned', 'lsb0'), examples={'quick': 5000, 'thorough': 60000}),
]
