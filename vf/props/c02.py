"""C02 - value <-> bits round trip and canonical encoding for every fixed dtype, through every creation/reading route."""
import math
import struct

from hypothesis import strategies as st

from vf.engine import Sub, require, bitstring_module
from vf.common import cls_st, mk, attempt, is_raised, CLASSES, MUTABLE, cls_of
from vf import codecs
from vf.codecs import canon, encode, decode, same_value

RULE = ("create: (dtype incl. aliases, valid bit length 1..300 (whole bytes / multiples of 4, 3 where required), in-range value generated from a "
        "bit pattern so it is exactly representable, creation route, class); read: (dtype, bit pattern, reading route, class). Oracle = stdlib "
        "encoders (format / int two's complement / struct / digit tables). Non-trivial = length not in {8,16,32,64} or value at a range boundary "
        "or a non-keyword route; distinct = SHA-1 of the case.")
ASSUMPTIONS = ["float values that struct cannot pack (overflow) are not generated: the overflow-to-inf convenience is not part of the statement",
               "token-string floats are rendered with repr(), which round-trips a double exactly", "bytes values cannot be written in a token string"]

NAMES = codecs.ALL_FIXED + ['u', 'i', 'h', 'o', 'b', 'f']
CREATE_ROUTES = ['kw_length', 'kw_name', 'setattr_name', 'setattr_existing', 'token_colon', 'token_plain', 'token_nolen', 'dtype_build2', 'dtype_build1', 'pack',
                 'pack_kwlen', 'pack_kwval', 'pack_embedded']
READ_ROUTES = ['prop', 'prop_len', 'dtype_parse', 'dtype_parse2', 'unpack', 'unpack_nolen', 'read', 'readlist', 'peek', 'read_dtype', 'unpack_list']


def token_len(name, n):
    """length as written in a token / name (bytes count bytes)"""
    return n // 8 if canon(name) == 'bytes' else n


def render_value(name, v, style):
    c = canon(name)
    if c in ('hex', 'oct', 'bin'):
        return codecs.render_text(c, v, style)
    if c == 'bits':
        return '0b' + v if v else ''
    if c == 'bool':
        return ['True', 'False'][0 if v else 1] if style % 2 else ('1' if v else '0')
    if isinstance(v, float):
        return repr(v)
    if isinstance(v, int) and not isinstance(v, bool) and style % 5 == 3:
        # zero-padded decimal text ('007', '-0100') is still that decimal integer
        return ('-' if v < 0 else '') + '0' * (1 + style % 3) + str(abs(v))
    return str(v)


def py_value(name, v, style, bs):
    """the python object handed to a keyword / build / pack"""
    c = canon(name)
    if c in ('hex', 'oct', 'bin'):
        return codecs.render_text(c, v, style)
    if c == 'bits':
        return bs.Bits(bin=v) if style % 2 else (bs.BitArray(bin=v) if style % 4 == 2 else ('0b' + v if v else bs.Bits()))
    if c == 'bool':
        return bool(v) if style % 2 else int(v)
    return v


def has_fixed_length(name):
    return canon(name) in ('bool', 'bfloat', 'bfloatle')


RAW = []   # objects a route produced before the final conversion (property-assignment targets, pack results)


def _raw(x):
    RAW.append(x)
    return x


def create(bs, route, name, n, v, style, clsname):
    c = cls_of(clsname)
    L = token_len(name, n)
    pv = py_value(name, v, style, bs)
    text_ok = canon(name) != 'bytes' and not (canon(name) in ('bits', 'bin', 'hex', 'oct') and n == 0)
    selfsized = canon(name) in ('hex', 'oct', 'bin', 'bits', 'bytes', 'bool', 'bfloat', 'bfloatle')
    if route == 'kw_length':
        if canon(name) == 'bytes':
            return c(bytes=pv, length=n)
        if selfsized:
            return c(**{name: pv})
        return c(**{name: pv}, length=n)
    if route == 'kw_name':
        if has_fixed_length(name) and style % 2:
            return c(**{name: pv})
        return c(**{f'{name}{L}': pv})
    if route == 'setattr_name':
        a = cls_of(MUTABLE[style % 2])('0b101')
        setattr(a, name if (has_fixed_length(name) and style % 2) else f'{name}{L}', pv)
        return c(_raw(a))
    if route == 'setattr_existing':
        a = cls_of(MUTABLE[style % 2])(n)
        setattr(a, name, pv)
        return c(_raw(a))
    if route in ('token_colon', 'token_plain', 'token_nolen'):
        if not text_ok:
            return c(bs.Dtype(name, L).build(pv))
        val = render_value(name, v, style)
        if route == 'token_nolen' and selfsized:
            return c(f'{name}={val}')
        if has_fixed_length(name) and style % 2:
            return c(f'{name}={val}')
        return c(f'{name}:{L}={val}' if route == 'token_colon' else f'{name}{L} = {val}')
    if route == 'dtype_build2':
        return c(bs.Dtype(name, L).build(pv))
    if route == 'dtype_build1':
        return c(bs.Dtype(f'{name}{L}').build(pv))
    if route == 'pack':
        return c(_raw(bs.pack(f'{name}:{L}', pv)))
    if route == 'pack_kwlen':
        return c(_raw(bs.pack(f'{name}:n', pv, n=L)))
    if route == 'pack_kwval':
        return c(_raw(bs.pack(f'{name}:{L}=val', val=pv)))
    if route == 'pack_embedded':
        if not text_ok:
            return c(bs.pack(f'{name}{L}', pv))
        return c(bs.pack(f'{name}:{L}={render_value(name, v, style)}'))
    raise AssertionError(route)


def read(bs, route, name, obj, n):
    L = token_len(name, n)
    if route == 'prop':
        return getattr(obj, name)
    if route == 'prop_len':
        return getattr(obj, f'{name}{L}')
    if route == 'dtype_parse':
        return bs.Dtype(name, L).parse(obj)
    if route == 'dtype_parse2':
        return bs.Dtype(f'{name}:{L}').parse(obj.bin and '0b' + obj.bin or obj)
    if route == 'unpack':
        return obj.unpack(f'{name}:{L}')[0]
    if route == 'unpack_list':
        return obj.unpack([f'{name}{L}'])[0]
    if route == 'unpack_nolen':
        return obj.unpack(name)[0]
    s = bs.ConstBitStream(obj) if n % 2 else bs.BitStream(obj)
    if route == 'read':
        r = s.read(f'{name}:{L}')
        require(s.pos == n, 'read did not consume exactly the token length', pos=s.pos, n=n)
        return r
    if route == 'read_dtype':
        return s.read(bs.Dtype(name, L))
    if route == 'readlist':
        return s.readlist([f'{name}{L}'])[0]
    if route == 'peek':
        r = s.peek(f'{name}:{L}')
        require(s.pos == 0, 'peek moved pos')
        return r
    raise AssertionError(route)


def boundary_value(name, n, v):
    c = canon(name)
    if c in codecs.INT_TYPES or c in ('uintbe', 'intbe', 'uintle', 'intle'):
        lo, hi = codecs.int_range(c, n)
        return v in (lo, hi, lo + 1, hi - 1, 0, 1, -1)
    if isinstance(v, float):
        return v == 0 or math.isinf(v) or math.isnan(v) or abs(v) < 1e-4
    return False


@st.composite
def create_case(draw, tier):
    name = draw(st.sampled_from(NAMES))
    n = draw(codecs.length_for(name, 300))
    c = canon(name)
    if c in ('float', 'floatle') and n in (16, 32) and draw(st.integers(0, 3)) == 0:
        # a double that is not exactly representable in the narrower format; in range = struct can pack it (the statement's reference)
        if draw(st.booleans()):
            v = codecs.decode('float', draw(codecs.pattern(64)))
        else:
            # between two neighbouring representable values: rounding midpoints, and the zone just above the largest finite value
            r = codecs.decode('float', draw(codecs.pattern(n)))
            if math.isnan(r) or math.isinf(r):
                r = 65504.0 if n == 16 else float.fromhex('0x1.fffffep+127')
            p, min_exp = (11, -24) if n == 16 else (24, -149)
            ulp = 2.0 ** max(math.frexp(abs(r))[1] - p, min_exp) if r else 2.0 ** min_exp
            frac = draw(st.sampled_from([0.5, 0.25, 0.75, 0.5 - 2.0 ** -20, 0.5 + 2.0 ** -20, 0.999, 0.001, 1 - 2.0 ** -30, 0.4999, 2.0 ** -25]))
            v = r + math.copysign(ulp * frac, r if r else draw(st.sampled_from([1.0, -1.0])))
        try:
            struct.pack('>e' if n == 16 else '>f', v)
        except (OverflowError, struct.error):
            v = draw(codecs.value_for(name, n))
    elif c in ('float', 'floatle', 'bfloat', 'bfloatle') and draw(st.integers(0, 9)) == 0:
        v = float(draw(st.integers(-100, 100)))
    else:
        v = draw(codecs.value_for(name, n))
    case = {'name': name, 'n': n, 'route': draw(st.sampled_from(CREATE_ROUTES)), 'route2': draw(st.sampled_from(CREATE_ROUTES)), 'style': draw(st.integers(0, 7)), 'cls': draw(cls_st)}
    case['value'] = v if not isinstance(v, bytes) else {'bytes': v.hex()}
    if isinstance(v, float):
        case['value'] = {'float': v.hex() if not math.isnan(v) else 'nan', 'neg': math.copysign(1, v) < 0}
    return case


def unwrap(v):
    if isinstance(v, dict):
        if 'bytes' in v:
            return bytes.fromhex(v['bytes'])
        if v['float'] == 'nan':
            return math.nan   # NaN sign/payload are excepted by the statement
        return float.fromhex(v['float'])
    return v


def run_create(case):
    bs = bitstring_module()
    name, n, v = case['name'], case['n'], unwrap(case['value'])
    exp = encode(name, v, n)
    require(len(exp) == n, 'HARNESS: reference encoder length')
    del RAW[:]
    res = attempt(create, bs, case['route'], name, n, v, case['style'], case['cls'])
    require(not is_raised(res), 'creating from an in-range value raised', got=res, case=case)
    require(len(res) == n, 'built object does not have exactly the requested number of bits', got=len(res), expected=n, case=case)
    if isinstance(v, float) and math.isnan(v):
        require(math.isnan(decode(name, res.bin)), 'NaN was not encoded as a NaN', got=res.bin)
        return {'nt': True, 'labels': [name, case['route'], 'nan']}
    require(res.bin == exp, 'bits are not the documented canonical encoding', got=res.bin[:96], expected=exp[:96], case=case)
    back = attempt(getattr, res, name)
    if canon(name) == 'bits':
        require(back.bin == v, 'interpreting the built bits does not return the value')
    else:
        expv = decode(name, exp)
        require(not is_raised(back) and same_value(back, expv), 'interpreting the built bits does not return the value', got=back, expected=expv, case=case)
    # history independence of creation: edit every mutable object the route handed out (in place), then build the same
    # (dtype, length, value) again through another route - it must still be the canonical encoding
    for o in RAW + [res]:
        if isinstance(o, bs.BitArray) and len(o):
            o.invert()
            o.append('0b1')
    del RAW[:]
    again = attempt(create, bs, case.get('route2', 'kw_name'), name, n, v, case['style'], case['cls'])
    del RAW[:]
    require(not is_raised(again) and again.bin == exp, 'building the same (dtype, length, value) again after a previously built object was modified '
            'does not give the canonical encoding', got=again if is_raised(again) else again.bin[:96], expected=exp[:96], case=case)
    nt = n not in (8, 16, 32, 64) or boundary_value(name, n, v) or case['route'] != 'kw_length'
    return {'nt': nt, 'labels': [name, case['route'], case['cls']]}


@st.composite
def read_case(draw, tier):
    name = draw(st.sampled_from(NAMES))
    n = draw(codecs.length_for(name, 300))
    return {'name': name, 'n': n, 'bits': draw(codecs.pattern(n)), 'route': draw(st.sampled_from(READ_ROUTES)), 'cls': draw(cls_st),
            'rebuild': draw(st.sampled_from(CREATE_ROUTES)), 'style': draw(st.integers(0, 7))}


def run_read(case):
    bs = bitstring_module()
    name, n, bits = case['name'], case['n'], case['bits']
    obj = mk(case['cls'], bits)
    route = case['route']
    if n == 0 and route in ('unpack', 'unpack_list', 'read', 'readlist', 'peek', 'read_dtype', 'unpack_nolen', 'prop_len', 'dtype_parse', 'dtype_parse2'):
        route = 'prop'
    expv = decode(name, bits)
    got = attempt(read, bs, route, name, obj, n)
    require(not is_raised(got), 'interpreting a bit pattern of a valid length raised', got=got, case=case)
    if canon(name) == 'bits':
        require(got.bin == bits, 'bits interpretation differs')
        gv = got.bin
    else:
        require(same_value(got, expv), 'reading route returned a value that differs from the reference decoder', got=got, expected=expv, case=case)
        gv = got
    require(obj.bin == bits, 'reading modified the object')
    # rebuild from the library's own answer: must reproduce the pattern (NaN payloads excepted)
    if not (isinstance(expv, float) and math.isnan(expv)):
        rb = attempt(create, bs, case['rebuild'], name, n, gv if canon(name) != 'bits' else bits, case['style'], case['cls'])
        require(not is_raised(rb), 'rebuilding from the interpreted value raised', got=rb, case=case)
        require(rb.bin == bits, 'interpreting a pattern and rebuilding from the result does not reproduce the pattern', got=rb.bin[:96], expected=bits[:96], case=case)
    return {'nt': n not in (8, 16, 32, 64) or route != 'prop', 'labels': [name, route]}


@st.composite
def alias_case(draw, tier):
    pair = draw(st.sampled_from([('u', 'uint'), ('i', 'int'), ('h', 'hex'), ('o', 'oct'), ('b', 'bin'), ('f', 'float'), ('float', 'floatbe'), ('bfloat', 'bfloatbe'),
                                 ('uintne', 'uintle' if codecs.LITTLE else 'uintbe'), ('intne', 'intle' if codecs.LITTLE else 'intbe'),
                                 ('floatne', 'floatle' if codecs.LITTLE else 'floatbe'), ('bfloatne', 'bfloatle' if codecs.LITTLE else 'bfloatbe')]))
    n = draw(codecs.length_for(pair[0], 200))
    return {'a': pair[0], 'b': pair[1], 'n': n, 'bits': draw(codecs.pattern(n)), 'cls': draw(cls_st)}


def run_alias(case):
    bs = bitstring_module()
    a, b, n, bits = case['a'], case['b'], case['n'], case['bits']
    obj = mk(case['cls'], bits)
    va, vb = getattr(obj, a), getattr(obj, b)
    require(same_value(va, vb), 'alias reads a different value', a=a, b=b, va=va, vb=vb)
    if not (isinstance(va, float) and math.isnan(va)):
        L = token_len(a, n)
        x, y = bs.Bits(f'{a}:{L}={render_value(a, va, 0)}'), bs.Bits(f'{b}:{L}={render_value(b, vb, 0)}')
        require(x.bin == y.bin == bits, 'alias builds different bits', a=a, b=b, x=x.bin[:64], y=y.bin[:64])
        require(bs.Dtype(a, L).build(va).bin == bs.Dtype(b, L).build(vb).bin, 'alias Dtype builds different bits')
    return {'nt': True, 'labels': [a]}


def selftest():
    codecs.selftest()


def enum_int_grid(tier):
    """complete grid for the integer interpretations: every name x every legal width up to 130 bits (136 for whole-byte forms) x the values at and next
    to both limits and around zero; creation route and class rotate with the cell (all 13 routes per cell in thorough)"""
    k = 0
    for name in NAMES:
        c = canon(name)
        if c not in ('uint', 'int', 'uintbe', 'intbe', 'uintle', 'intle'):
            continue
        for n in (range(1, 131) if c in ('uint', 'int') else range(8, 137, 8)):
            lo, hi = codecs.int_range(name, n)
            for v in sorted({lo, lo + 1, hi - 1, hi, 0, max(lo, -1), min(hi, 1), lo // 2, hi // 2}):
                if not lo <= v <= hi:
                    continue
                k += 1
                for route in (CREATE_ROUTES if tier == 'thorough' else [CREATE_ROUTES[k % len(CREATE_ROUTES)]]):
                    yield {'name': name, 'n': n, 'route': route, 'route2': CREATE_ROUTES[(k * 7 + 3) % len(CREATE_ROUTES)], 'style': k % 8, 'cls': CLASSES[k % 4], 'value': v}


SUBCHECKS = [
    Sub('C02.int_limits_grid', run_create, enum=enum_int_grid,
        enum_exhaustive_note='every integer dtype name (incl. be/le/ne and one-letter aliases) x every legal width 1..130 / whole bytes 8..136 x {lo, lo+1, lo/2, -1, 0, 1, hi/2, hi-1, hi}; '
                             'one rotating creation route per cell (quick) / all 13 (thorough)'),
    Sub('C02.create_canonical_all_routes', run_create, strategy=create_case, examples={'quick': 20000, 'thorough': 300000}, ambient=('bytealigned', 'lsb0')),
    Sub('C02.read_all_routes_and_rebuild', run_read, strategy=read_case, examples={'quick': 16000, 'thorough': 250000}, ambient=('bytealigned',)),
    Sub('C02.aliases', run_alias, strategy=alias_case, examples={'quick': 3000, 'thorough': 30000}),
]
