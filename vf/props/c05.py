"""C05 - pack, unpack and token strings are mutually inverse and compositional.

Formats are rendered FROM a generated AST; the oracle works on the AST (never parses bitstring format strings)."""
import math
import struct

from hypothesis import strategies as st

from vf.engine import Sub, require, bitstring_module
from vf.common import cls_st, mk, attempt, is_raised, cls_of, bits_st, bits_of_len
from vf import codecs
from vf.codecs import canon, encode, decode, same_value
from vf.props import c10

RULE = ("cases = a format AST (leaves: every fixed dtype with length spelled name:n / namen / keyword, value positional / =literal / =keyword; "
        "ue/se/uie/sie; pad:n; 0x/0o/0b literals; bare keyword tokens; at most one length-less token; struct-style codes with every prefix and counts; "
        "inner nodes n*(...) nested to depth 3 and n*token with factors 0..4; random whitespace; single string or list of strings) + conforming values. "
        "Oracle: concatenation of independent reference encodings of the expanded leaf list. Non-trivial = >= 3 leaves and at least one of: bracket, "
        "factor >= 2, struct code, length-less token, keyword; distinct = SHA-1 of the case.")
ASSUMPTIONS = ["unpack is checked only on formats decodable by construction (no literal/bare-keyword leaves are present in the unpack rendering; "
               "they are replaced by bits:n)", "'@' is treated as '=' (documented as equivalent: standard sizes, no alignment)",
               "chained factors (2*3*x) are not part of the documented grammar and are not generated"]

STRUCT_CODES = {'b': ('int', 8), 'B': ('uint', 8), 'h': ('int', 16), 'H': ('uint', 16), 'l': ('int', 32), 'L': ('uint', 32), 'i': ('int', 32), 'I': ('uint', 32),
                'q': ('int', 64), 'Q': ('uint', 64), 'e': ('float', 16), 'f': ('float', 32), 'd': ('float', 64)}
LEAF_NAMES = ['uint', 'int', 'uintbe', 'intbe', 'uintle', 'intle', 'uintne', 'intne', 'hex', 'oct', 'bin', 'bytes', 'bool', 'bits', 'float', 'floatbe', 'floatle',
              'floatne', 'bfloat', 'bfloatle', 'u', 'i', 'h', 'o', 'b', 'f']
STRETCHY = ['hex', 'oct', 'bin', 'bits', 'bytes']


# ---------------------------------------------------------------------------------------------
# AST
# leaf: {'k':'tok', 'name', 'n' (bits), 'spell': 'colon'|'plain'|'kw', 'place': 'pos'|'lit'|'kwv', 'v': value-json}
#       {'k':'gol', 'name', 'place', 'v'}   {'k':'pad','n','spell'}   {'k':'lit','base','bits'}   {'k':'barekw','bits','vkind'}
#       {'k':'stretchy','name','v'}   {'k':'struct','endian','items':[[count, code, [values...]], ...]}
# node: {'k':'rep','factor', 'body':[...], 'bracket': bool}

def jv(v):
    if isinstance(v, bytes):
        return {'bytes': v.hex()}
    if isinstance(v, float):
        return {'float': v.hex() if not math.isnan(v) else 'nan'}
    return v


def uv(v):
    if isinstance(v, dict):
        if 'bytes' in v:
            return bytes.fromhex(v['bytes'])
        return math.nan if v['float'] == 'nan' else float.fromhex(v['float'])
    return v


@st.composite
def leaf_st(draw, allow_stretchy):
    k = draw(st.integers(0, 19))
    if k == 0:
        return {'k': 'pad', 'n': draw(st.integers(0, 12)), 'spell': draw(st.sampled_from(['colon', 'plain']))}
    if k == 1:
        base = draw(st.sampled_from(['0x', '0o', '0b', '0X', '0B']))
        per = {'0x': 4, '0o': 3, '0b': 1}[base.lower()]
        return {'k': 'lit', 'base': base, 'bits': draw(bits_of_len(per * draw(st.integers(1, 6))))}
    if k == 2:
        return {'k': 'barekw', 'bits': draw(bits_st(max_len=20)), 'vkind': draw(st.sampled_from(['Bits', 'BitArray', 'str', 'bytes']))}
    if k in (3, 4):
        name = draw(st.sampled_from(c10.KINDS))
        v = draw(st.one_of(st.integers(0, 12), st.integers(0, 100000), st.integers(0, 100000),
                           st.builds(lambda e, d: max(0, 2 ** e - 4 + d), st.integers(1, 200), st.integers(0, 8))))
        if name in ('se', 'sie') and draw(st.booleans()):
            v = -v
        return {'k': 'gol', 'name': name, 'v': v, 'place': draw(st.sampled_from(['pos', 'pos', 'lit', 'kwv']))}
    if k == 5 and allow_stretchy:
        name = draw(st.sampled_from(STRETCHY))
        n = draw(codecs.length_for(name, 40))
        return {'k': 'stretchy', 'name': name, 'v': jv(decode(name, draw(codecs.pattern(n)))), 'n': n}
    if k in (6, 7):
        items = []
        for _ in range(draw(st.integers(1, 3))):
            code = draw(st.sampled_from(sorted(STRUCT_CODES)))
            cnt = draw(st.sampled_from([None, None, 1, 2, 3, 0]))
            nm, nb = STRUCT_CODES[code]
            vals = [jv(draw(codecs.value_for(nm, nb))) for _ in range(1 if cnt is None else cnt)]
            vals = [v if not (isinstance(v, dict) and v.get('float') == 'nan') else {'float': (1.5).hex()} for v in vals]
            items.append([cnt, code, vals])
        return {'k': 'struct', 'endian': draw(st.sampled_from('<>=@')), 'items': items}
    name = draw(st.sampled_from(LEAF_NAMES))
    n = draw(codecs.length_for(name, 70))
    c = canon(name)
    v = draw(codecs.value_for(name, n))
    if isinstance(v, float) and math.isnan(v):
        v = 0.25
    spell = draw(st.sampled_from(['colon', 'colon', 'plain', 'kw']))
    if c in ('bool', 'bfloat', 'bfloatle') and draw(st.booleans()):
        spell = 'none'
    place = draw(st.sampled_from(['pos', 'pos', 'lit', 'kwv']))
    if c == 'bytes' and place == 'lit':
        place = 'pos'
    if c in ('bits', 'bin', 'hex', 'oct') and n == 0 and place == 'lit':
        place = 'pos'
    return {'k': 'tok', 'name': name, 'n': n, 'spell': spell, 'place': place, 'v': jv(v), 'style': draw(st.integers(0, 7))}


@st.composite
def node_st(draw, depth, state):
    k = draw(st.integers(0, 9))
    if depth > 0 and k <= 1:
        body = [draw(node_st(depth - 1, state)) for _ in range(draw(st.integers(1, 3)))]
        return {'k': 'rep', 'factor': draw(st.sampled_from([0, 1, 2, 2, 3, 4, 10, 12])), 'body': body, 'bracket': True}
    if k == 2:
        leaf = draw(leaf_st(False))
        if (leaf['k'] in ('tok', 'gol', 'pad') and leaf.get('place', 'pos') == 'pos') or leaf['k'] == 'struct':
            return {'k': 'rep', 'factor': draw(st.sampled_from([0, 1, 2, 3, 4])), 'body': [leaf], 'bracket': False}
        return leaf
    if depth > 0 and k == 3:
        # plain brackets without a factor
        body = [draw(node_st(depth - 1, state)) for _ in range(draw(st.integers(1, 3)))]
        return {'k': 'rep', 'factor': None, 'body': body, 'bracket': True}
    leaf = draw(leaf_st(not state['stretchy']))
    if leaf['k'] == 'stretchy':
        state['stretchy'] = True
    return leaf


@st.composite
def ast_st(draw, max_top=5):
    state = {'stretchy': False}
    return [draw(node_st(2, state)) for _ in range(draw(st.integers(1, max_top)))]


def expand(nodes):
    """flat leaf list in encoding order (each repetition of a leaf shares its value)"""
    out = []
    for nd in nodes:
        if nd['k'] == 'rep':
            f = 1 if nd['factor'] is None else nd['factor']
            inner = expand(nd['body'])
            for _ in range(f):
                out.extend(inner)
        else:
            out.append(nd)
    return out


def leaf_bits(leaf):
    k = leaf['k']
    if k == 'pad':
        return '0' * leaf['n']
    if k in ('lit', 'barekw'):
        return leaf['bits']
    if k == 'gol':
        return c10.enc(leaf['name'], leaf['v'])
    if k == 'stretchy':
        return encode(leaf['name'], uv(leaf['v']), leaf['n'])
    if k == 'struct':
        e = leaf['endian']
        out = ''
        for cnt, code, vals in leaf['items']:
            for v in vals:
                b = struct.pack(('=' if e == '@' else e) + code, uv(v))
                out += ''.join(format(x, '08b') for x in b)
        return out
    return encode(leaf['name'], uv(leaf['v']), leaf['n'])


# ---------------------------------------------------------------------------------------------
# rendering

class Render:
    def __init__(self, bs, mode, ws_seed=0, all_literal=False):
        self.bs = bs
        self.mode = mode            # 'pack' | 'unpack' | 'string'
        self.kw = {}
        self.vals = []
        self.ws = ws_seed
        self.all_literal = all_literal

    def sp(self):
        self.ws = (self.ws * 1103515245 + 12345) & 0x7fffffff
        return ' ' * ((self.ws >> 16) % 3 == 0)

    def key(self, prefix, val):
        name = f'{prefix}{len(self.kw)}'
        self.kw[name] = val
        return name

    def value_text(self, leaf):
        if leaf['k'] == 'gol':
            return str(leaf['v'])
        name, v = leaf['name'], uv(leaf['v'])
        c = canon(name)
        if c in ('hex', 'oct', 'bin'):
            return codecs.render_text(c, v, leaf.get('style', 0))
        if c == 'bits':
            return '0b' + v
        if c == 'bool':
            return 'True' if v else 'False' if leaf.get('style', 0) % 2 else ('1' if v else '0')
        return repr(v) if isinstance(v, float) else str(v)

    def py_value(self, leaf):
        if leaf['k'] == 'gol':
            return leaf['v']
        name, v = leaf['name'], uv(leaf['v'])
        c = canon(name)
        if c == 'bits':
            return self.bs.Bits(bin=v) if leaf.get('style', 0) % 2 else ('0b' + v if v else self.bs.BitArray())
        return v

    def length_text(self, leaf):
        name = leaf['name']
        L = leaf['n'] // 8 if canon(name) == 'bytes' else leaf['n']
        sp = leaf.get('spell', 'colon')
        if sp == 'none':
            return name
        if sp == 'kw' and self.mode != 'string':
            return f"{name}{self.sp()}:{self.sp()}{self.key('len', L)}"
        if sp == 'plain':
            return f'{name}{L}'
        return f'{name}{self.sp()}:{self.sp()}{L}'

    def leaf(self, leaf, in_factor=False):
        k = leaf['k']
        if k == 'pad':
            return f"pad:{leaf['n']}" if leaf['spell'] == 'colon' else f"pad{leaf['n']}"
        if k == 'lit':
            if self.mode == 'unpack':
                return f"bits:{len(leaf['bits'])}"
            per = {'0x': 4, '0o': 3, '0b': 1}[leaf['base'].lower()]
            digits = codecs.decode({4: 'hex', 3: 'oct', 1: 'bin'}[per], leaf['bits'])
            return leaf['base'] + digits
        if k == 'barekw':
            if self.mode == 'unpack':
                return f"bits:{len(leaf['bits'])}"
            if self.mode == 'string':
                return '0b' + leaf['bits'] if leaf['bits'] else ''
            b = leaf['bits']
            vk = leaf['vkind']
            if vk == 'bytes' and len(b) % 8 == 0:
                val = int(b, 2).to_bytes(len(b) // 8, 'big') if b else b''
            elif vk == 'str' and b:
                val = '0b' + b
            elif vk == 'BitArray':
                val = self.bs.BitArray(bin=b)
            else:
                val = self.bs.Bits(bin=b)
            return self.key('obj', val)
        if k == 'struct':
            if self.mode == 'string':
                return None   # struct codes cannot carry embedded values
            txt = leaf['endian']
            for cnt, code, vals in leaf['items']:
                txt += ('' if cnt is None else str(cnt)) + code
                if self.mode != 'unpack':
                    self.vals.extend(uv(v) for v in vals)
            return txt
        if k == 'stretchy':
            if self.mode == 'string':
                if canon(leaf['name']) == 'bytes' or leaf['n'] == 0:
                    return None
                return f"{leaf['name']}={self.value_text(leaf)}"
            if self.mode == 'pack':
                self.vals.append(self.py_value(leaf))
            return leaf['name']
        # tok / gol
        head = leaf['name'] if k == 'gol' else self.length_text(leaf)
        if self.mode == 'unpack':
            return head
        place = leaf.get('place', 'pos')
        if self.mode == 'string' or self.all_literal:
            place = 'lit'
        if place == 'pos':
            self.vals.append(self.py_value(leaf))
            return head
        if place == 'kwv':
            return f"{head}{self.sp()}={self.sp()}{self.key('val', self.py_value(leaf))}"
        if k == 'tok' and (canon(leaf['name']) == 'bytes' or (leaf['n'] == 0 and canon(leaf['name']) in ('bits', 'bin', 'hex', 'oct'))):
            return None
        return f"{head}{self.sp()}={self.sp()}{self.value_text(leaf)}"

    def nodes(self, nodes):
        parts = []
        for nd in nodes:
            if nd['k'] == 'rep':
                if nd['bracket']:
                    if nd['factor'] is None:
                        inner = self.nodes(nd['body'])
                        parts.append(f"({self.sp()}{inner}{self.sp()})")
                    else:
                        # the body is rendered once: positional values must then be supplied once per repetition
                        before = len(self.vals)
                        inner = self.nodes(nd['body'])
                        once = self.vals[before:]
                        del self.vals[before:]
                        self.vals.extend(once * nd['factor'])
                        parts.append(f"{nd['factor']}{self.sp()}*{self.sp()}({inner})")
                else:
                    before = len(self.vals)
                    t = self.leaf(nd['body'][0], True)
                    if t is None:
                        raise Unrenderable()
                    once = self.vals[before:]
                    del self.vals[before:]
                    self.vals.extend(once * nd['factor'])
                    parts.append(f"{nd['factor']}*{t}")
            else:
                t = self.leaf(nd)
                if t is None:
                    raise Unrenderable()
                if t != '':
                    parts.append(t)
        if any(p is None for p in parts):
            raise Unrenderable()
        return f'{self.sp()},{self.sp()}'.join(parts)


class Unrenderable(Exception):
    pass


def expected_values(flat):
    out = []
    for lf in flat:
        k = lf['k']
        if k == 'pad':
            continue
        if k in ('lit', 'barekw'):
            out.append(('bits', lf['bits']))
        elif k == 'gol':
            out.append(('v', lf['v']))
        elif k == 'struct':
            for cnt, code, vals in lf['items']:
                nm, nb = STRUCT_CODES[code]
                for v in vals:
                    out.append(('v', decode(nm, encode(nm, uv(v), nb))))
        else:
            name = lf['name']
            if canon(name) == 'bits':
                out.append(('bits', uv(lf['v'])))
            else:
                out.append(('v', decode(name, leaf_bits(lf))))
    return out


def values_match(got, exp):
    if len(got) != len(exp):
        return False
    for g, (kind, e) in zip(got, exp):
        if kind == 'bits':
            if not hasattr(g, 'bin') or g.bin != e:
                return False
        elif not same_value(g, e):
            return False
    return True


def features(ast, flat):
    f = set()

    def walk(nodes):
        for nd in nodes:
            if nd['k'] == 'rep':
                if nd['bracket']:
                    f.add('bracket')
                if (nd['factor'] or 0) >= 2:
                    f.add('factor')
                walk(nd['body'])
            elif nd['k'] == 'struct':
                f.add('struct')
            elif nd['k'] == 'stretchy':
                f.add('stretchy')
            elif nd.get('spell') == 'kw' or nd.get('place') == 'kwv' or nd['k'] == 'barekw':
                f.add('keyword')
    walk(ast)
    return f


def unpack_ok(flat):
    """decodable by construction: nothing variable-length after the length-less token"""
    seen = False
    for lf in flat:
        if lf['k'] == 'stretchy':
            if seen:
                return False
            seen = True
        elif seen and lf['k'] == 'gol':
            return False
    return True


# ---------------------------------------------------------------------------------------------
# checks

@st.composite
def case_st(draw, tier):
    return {'ast': draw(ast_st()), 'ws': draw(st.integers(0, 10 ** 6)), 'as_list': draw(st.booleans()), 'cls': draw(cls_st),
            'split': draw(st.integers(0, 99)), 'arity': draw(st.sampled_from(['drop', 'add']))}


@st.composite
def resize_case_st(draw, tier):
    """flat formats (no repetition) that contain at least one positional, sized text/bits/bytes token"""
    state = {'stretchy': True}
    leaves = [draw(leaf_st(False)) for _ in range(draw(st.integers(0, 4)))]
    name = draw(st.sampled_from(['hex', 'oct', 'bin', 'bits', 'bytes', 'h', 'b']))
    n = draw(codecs.length_for(name, 40))
    sized = {'k': 'tok', 'name': name, 'n': n, 'spell': draw(st.sampled_from(['colon', 'plain', 'kw'])), 'place': 'pos',
             'v': jv(decode(name, draw(codecs.pattern(n)))), 'style': 0}
    leaves.insert(draw(st.integers(0, len(leaves))), sized)
    return {'ast': leaves, 'ws': draw(st.integers(0, 10 ** 6)), 'as_list': False, 'cls': 'Bits', 'split': draw(st.integers(0, 99)), 'arity': 'resize'}


def split_top(fmt_nodes, r, as_list):
    return None


def run_pack(case):
    bs = bitstring_module()
    ast = case['ast']
    flat = expand(ast)
    exp = ''.join(leaf_bits(lf) for lf in flat)
    r = Render(bs, 'pack', case['ws'])
    fmt = r.nodes(ast)
    fmt_arg = fmt
    if case['as_list'] and len(ast) > 1:
        k = max(1, len(ast) // 2)
        r2 = Render(bs, 'pack', case['ws'])
        a = r2.nodes(ast[:k])
        b = r2.nodes(ast[k:])
        fmt_arg, r = [a, b], r2
    res = attempt(bs.pack, fmt_arg, *r.vals, **r.kw)
    require(not is_raised(res), 'pack with conforming values raised', got=res, fmt=fmt_arg, nvals=len(r.vals), kw=list(r.kw))
    require(type(res).__name__ == 'BitStream' and res.pos == 0, 'pack must return a BitStream at pos 0')
    require(len(res) == len(exp), 'len(pack(...)) is not the sum of the token lengths', got=len(res), expected=len(exp), fmt=fmt_arg)
    require(res.bin == exp, 'pack bits differ from the concatenation of the per-token reference encodings', got=res.bin[:120], expected=exp[:120], fmt=fmt_arg)
    feats = features(ast, flat)
    # ---- unpack inverse
    if unpack_ok(flat):
        ru = Render(bs, 'unpack', case['ws'])
        ufmt = ru.nodes(ast)
        ev = expected_values(flat)
        for how in ('unpack', 'readlist', 'unpack_list'):
            if how == 'unpack':
                got = attempt(res.unpack, ufmt, **ru.kw)
            elif how == 'unpack_list':
                got = attempt(cls_of(case['cls'])(res).unpack, [ufmt], **ru.kw)
            else:
                s = bs.ConstBitStream(res)
                got = attempt(s.readlist, ufmt, **ru.kw)
                if not is_raised(got):
                    require(s.pos == len(exp), 'readlist did not consume the whole packed stream', pos=s.pos, expected=len(exp), fmt=ufmt)
            require(not is_raised(got), f'{how} of the packed bits raised', got=got, fmt=ufmt, packfmt=fmt_arg)
            require(values_match(got, ev), f'{how}(fmt) on pack(fmt, *values) does not return the values', got=got, expected=[e for _, e in ev][:12], fmt=ufmt)
        if len(ast) > 1:
            # the same format as a list of two strings split at a top-level position: it is one flat format, whichever item holds the length-less token
            k = 1 + case.get('split', case['ws']) % (len(ast) - 1)
            rl = Render(bs, 'unpack', case['ws'])
            parts = [rl.nodes(ast[:k]), rl.nodes(ast[k:])]
            for how in ('unpack', 'readlist'):
                s = bs.ConstBitStream(res)
                got = attempt(s.unpack if how == 'unpack' else s.readlist, parts, **rl.kw)
                require(not is_raised(got), f'{how}([f1, f2]) of the packed bits raised', got=got, fmt=parts)
                require(values_match(got, ev), f'{how}([f1, f2]) does not return the values that {how}("f1, f2") returns', got=got, expected=[e for _, e in ev][:12], fmt=parts)
    # ---- token string with embedded values == pack
    try:
        rs = Render(bs, 'string', case['ws'])
        text = rs.nodes(ast)
        built = attempt(cls_of(case['cls']), text) if text.strip() else None
        if built is not None:
            require(not is_raised(built), 'token string with embedded values raised', got=built, text=text)
            require(built.bin == exp, 'token string with =value parts builds different bits than pack with separate values', got=built.bin[:120], expected=exp[:120], text=text)
            if len(ast) > 1:
                k = 1 + case['split'] % (len(ast) - 1)
                t1, t2 = Render(bs, 'string', 1).nodes(ast[:k]), Render(bs, 'string', 2).nodes(ast[k:])
                c = cls_of(case['cls'])
                one = (c(t1) if t1.strip() else c()) + (c(t2) if t2.strip() else c())
                require(one.bin == exp, "formats do not compose: bits('f1, f2') != bits(f1) + bits(f2)", f1=t1, f2=t2)
    except Unrenderable:
        pass
    # ---- composition of pack: pack(f1,f2) == pack(f1) + pack(f2)
    if len(ast) > 1:
        k = 1 + case['split'] % (len(ast) - 1)
        ra, rb = Render(bs, 'pack', 3), Render(bs, 'pack', 4)
        fa, fb = ra.nodes(ast[:k]), rb.nodes(ast[k:])
        pa, pb = bs.pack(fa, *ra.vals, **ra.kw), bs.pack(fb, *rb.vals, **rb.kw)
        require((pa + pb).bin == exp, "pack does not compose: pack('f1, f2') != pack(f1) + pack(f2)", f1=fa, f2=fb)
    nt = len(flat) >= 3 and bool(feats)
    return {'nt': nt, 'labels': sorted(feats) + ['leaves=%d' % min(len(flat), 10)]}


def run_factor(case):
    """'n*(f)' equals f written n times (same values each time)"""
    bs = bitstring_module()
    body = case['ast']
    n = [0, 1, 2, 2, 3, 3, 4, 10, 11, 20][case['split'] % 10]
    r1 = Render(bs, 'pack', case['ws'], all_literal=False)
    inner = r1.nodes(body)
    once_vals = list(r1.vals)
    fmt = f'{n}*({inner})'
    res = attempt(bs.pack, fmt, *(once_vals * n), **r1.kw)
    written = ', '.join([inner] * n)
    res2 = attempt(bs.pack, written, *(once_vals * n), **r1.kw)
    exp = ''.join(leaf_bits(lf) for lf in expand(body)) * n
    require(not is_raised(res) and not is_raised(res2), 'pack of a factor format raised', a=res, b=res2, fmt=fmt)
    require(res.bin == exp, "'n*(f)' is not f written n times", fmt=fmt, got=res.bin[:100], expected=exp[:100], n=n)
    require(res2.bin == exp, 'f written n times differs from the model', fmt=written)
    return {'nt': n >= 2 and len(expand(body)) >= 2, 'labels': ['n=%d' % n]}


def run_arity(case):
    bs = bitstring_module()
    ast = case['ast']
    flat = expand(ast)
    r = Render(bs, 'pack', case['ws'])
    fmt = r.nodes(ast)
    how = case['arity']
    vals = list(r.vals)
    if how == 'drop':
        if not vals:
            return {'nt': False}
        vals.pop()   # the last one, so that every remaining value still meets a token of its own type
        res = attempt(bs.pack, fmt, *vals, **r.kw)
        # dropping a value from the middle shifts later values: still must fail at the latest when values run out
        require(is_raised(res, ValueError), 'pack with too few values must raise CreationError', got=res if is_raised(res) else res.bin[:60], fmt=fmt, nvals=len(vals))
    elif how == 'add':
        vals.append(1)
        res = attempt(bs.pack, fmt, *vals, **r.kw)
        require(is_raised(res, ValueError), 'pack with too many values must raise CreationError', got=res if is_raised(res) else res.bin[:60], fmt=fmt, nvals=len(vals))
    else:
        # resize one sized text/bits/bytes value so that it disagrees with the token's stated length
        idx = [i for i, lf in enumerate(flat) if lf['k'] == 'tok' and canon(lf['name']) in ('hex', 'oct', 'bin', 'bits', 'bytes') and lf.get('place') == 'pos']
        if not idx or any(nd['k'] == 'rep' for nd in ast):
            return {'nt': False}
        # flat == ast order here (no repetitions): find the positional index of that leaf
        pos = 0
        target = idx[case['split'] % len(idx)]
        for i, lf in enumerate(flat):
            if i == target:
                break
            if lf['k'] in ('tok', 'gol') and lf.get('place') == 'pos':
                pos += 1
            elif lf['k'] == 'stretchy':
                pos += 1
            elif lf['k'] == 'struct':
                pos += sum(len(v) for _, _, v in lf['items'])
        lf = flat[target]
        c = canon(lf['name'])
        v = uv(lf['v'])
        bigger = {'hex': 'f', 'oct': '7', 'bin': '1'}.get(c)
        if c == 'bytes':
            vals[pos] = v + b'x'
        elif c == 'bits':
            vals[pos] = bs.Bits(bin=v + '1')
        else:
            vals[pos] = v + bigger
        res = attempt(bs.pack, fmt, *vals, **r.kw)
        require(is_raised(res, ValueError), 'pack with a wrongly sized value must raise CreationError', got=res if is_raised(res) else res.bin[:60], fmt=fmt, value=vals[pos])
    return {'nt': True, 'labels': [how]}


def selftest():
    bs = bitstring_module()
    assert bs.pack('uint:12, bits', 100, '0xffe').bin == format(100, '012b') + '111111111110'
    assert bs.pack('uint:8=a, uint:8=b, uint:55=a', a=6, b=44).bin == format(6, '08b') + format(44, '08b') + format(6, '055b')
    leaf = {'k': 'struct', 'endian': '<', 'items': [[2, 'h', [1, -2]], [None, 'B', [255]]]}
    assert leaf_bits(leaf) == ''.join(format(x, '08b') for x in struct.pack('<2hB', 1, -2, 255))


SUBCHECKS = [
    Sub('C05.pack_unpack_tokenstring_compose', run_pack, strategy=case_st, examples={'quick': 12000, 'thorough': 200000}, ambient=('bytealigned',)),
    Sub('C05.compose_factor', run_factor, strategy=case_st, examples={'quick': 4000, 'thorough': 60000}),
    Sub('C05.arity_errors', run_arity, strategy=case_st, examples={'quick': 4000, 'thorough': 50000}),
    Sub('C05.wrongly_sized_values', run_arity, strategy=resize_case_st, examples={'quick': 3000, 'thorough': 40000}),
]

for _s in SUBCHECKS:
    if _s.name in ['C05.pack_unpack_tokenstring_compose']:
        _s.fuzz = True
