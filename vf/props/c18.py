"""C18 - struct-code formats match struct/array; endian forms relate by byte reversal."""
import array
import math
import struct
import sys

from hypothesis import strategies as st

from vf.engine import Sub, require, bitstring_module
from vf.common import cls_st, mcls_st, mk, attempt, is_raised, cls_of, bits_of_len, to_bytes
from vf import codecs
from vf.codecs import same_value
from vf.props import c03

RULE = ("cases = (endianness prefix in <>=@, 1..4 struct codes b B h H l L i I q Q e f d with counts 0..12, in-range values generated from bit patterns "
        "(integer limits, subnormals, inf, -0.0)); whole-byte contents for the le/be/ne relations; byteswap formats (None, ints, lists, struct strings) with "
        "windows; array.array of every typecode as Array input. Oracle = struct / array from the standard library. Non-trivial = a multi-byte code with a "
        "value whose bytes are not palindromic; distinct = SHA-1 of the case.")
ASSUMPTIONS = ["'@' is compared with struct's '=' (the docs define @ as equivalent to =: standard sizes, no alignment)",
               "Array.equals(array.array) is only asserted in the positive direction"]

CODES = {'b': ('int', 8), 'B': ('uint', 8), 'h': ('int', 16), 'H': ('uint', 16), 'l': ('int', 32), 'L': ('uint', 32), 'i': ('int', 32), 'I': ('uint', 32),
         'q': ('int', 64), 'Q': ('uint', 64), 'e': ('float', 16), 'f': ('float', 32), 'd': ('float', 64)}


def jv(v):
    if isinstance(v, float):
        return {'f': v.hex() if not math.isnan(v) else 'nan'}
    return v


def uv(v):
    if isinstance(v, dict):
        return math.nan if v['f'] == 'nan' else float.fromhex(v['f'])
    return v


@st.composite
def values_for(draw, code, k, allow_nan=True):
    nm, nb = CODES[code]
    out = []
    for _ in range(k):
        v = draw(codecs.value_for(nm, nb))
        if nm == 'float' and nb in (16, 32) and draw(st.integers(0, 3)) == 0:
            v = draw(codecs.float_between_st(nb))      # struct rounds these; so must pack / Array
        if isinstance(v, float) and math.isnan(v) and not allow_nan:
            v = 1.5
        out.append(jv(v))
    return out


@st.composite
def fmt_case(draw, tier):
    items = []
    for _ in range(draw(st.integers(1, 4))):
        code = draw(st.sampled_from(sorted(CODES)))
        cnt = draw(st.sampled_from([None, None, None, 0, 1, 2, 3, 12]))
        items.append([cnt, code, draw(values_for(code, 1 if cnt is None else cnt))])
    return {'endian': draw(st.sampled_from('<>=@')), 'items': items, 'cls': draw(cls_st), 'factor': draw(st.sampled_from([None, None, 2]))}


def render(case):
    fmt = case['endian'] + ''.join(('' if c is None else str(c)) + code for c, code, _ in case['items'])
    vals = [uv(v) for _, _, vs in case['items'] for v in vs]
    sfmt = ('=' if case['endian'] == '@' else case['endian']) + ''.join(('' if c is None else str(c)) + code for c, code, _ in case['items'])
    return fmt, sfmt, vals


def nonpal(case):
    for _, code, vs in case['items']:
        if CODES[code][1] > 8:
            for v in vs:
                b = struct.pack('>' + code, uv(v))
                if b != b[::-1]:
                    return True
    return False


def run_pack(case):
    bs = bitstring_module()
    fmt, sfmt, vals = render(case)
    ref = struct.pack(sfmt, *vals)
    res = attempt(bs.pack, fmt, *vals)
    require(not is_raised(res), 'pack with a struct-style format raised', got=res, fmt=fmt, vals=vals[:6])
    require(res.tobytes() == ref and len(res) == 8 * len(ref), 'pack(code, *values).bytes differs from struct.pack', got=res.tobytes().hex()[:80], expected=ref.hex()[:80], fmt=fmt)
    # unpack inverts it (on the reference bytes, and on the packed object)
    for src in (cls_of(case['cls'])(bytes=ref), res):
        got = attempt(src.unpack, fmt)
        exp = list(struct.unpack(sfmt, ref))
        require(not is_raised(got) and len(got) == len(exp) and all(same_value(g, e) for g, e in zip(got, exp)), 'unpack(code) differs from struct.unpack',
                got=got if is_raised(got) else got[:8], expected=exp[:8], fmt=fmt)
    if len(case['items']) >= 2:
        # the same format given as a list of strings, one per item, then the first string alone again (and the list once more)
        parts = [case['endian'] + ('' if c is None else str(c)) + code for c, code, _ in case['items']]
        for _ in range(2):
            rl = attempt(bs.pack, parts, *vals)
            require(not is_raised(rl) and rl.tobytes() == ref, 'pack([f1, f2, ...]) differs from struct.pack of the joined format', got=rl if is_raised(rl) else rl.tobytes().hex()[:80],
                    expected=ref.hex()[:80], fmt=parts)
            c0, code0, v0 = case['items'][0]
            first_vals = [uv(v) for v in v0]
            r0 = attempt(bs.pack, parts[0], *first_vals)
            ref0 = struct.pack(('=' if case['endian'] == '@' else case['endian']) + ('' if c0 is None else str(c0)) + code0, *first_vals)
            require(not is_raised(r0) and r0.tobytes() == ref0, 'pack(f1) after pack([f1, f2, ...]) differs from struct.pack(f1)', got=r0 if is_raised(r0) else r0.tobytes().hex()[:80],
                    expected=ref0.hex()[:80], fmt=parts[0])
    if case['factor'] and vals:
        f2 = f"{case['factor']}*{fmt}"
        r2 = attempt(bs.pack, f2, *(vals * case['factor']))
        require(not is_raised(r2) and r2.tobytes() == ref * case['factor'], 'n*<struct format> differs from the format written n times', fmt=f2)
    s = bs.ConstBitStream(bytes=ref)
    got = attempt(s.readlist, fmt)
    require(not is_raised(got) and s.pos == 8 * len(ref), 'readlist(struct format) did not consume exactly the struct size', pos=s.pos, fmt=fmt)
    # whatever the bit numbering mode, unpack / readlist invert pack for the same format
    if vals and not any(isinstance(v, float) and math.isnan(v) for v in vals):
        bs.options.lsb0 = True
        try:
            pl = attempt(bs.pack, fmt, *vals)
            require(not is_raised(pl) and len(pl) == 8 * len(ref), 'pack with a struct-style format raised or has the wrong size under lsb0', got=pl, fmt=fmt)
            back = attempt(pl.unpack, fmt)
            exp = list(struct.unpack(sfmt, ref))
            require(not is_raised(back) and len(back) == len(exp) and all(same_value(g, e) for g, e in zip(back, exp)), 'under lsb0 unpack(code) does not invert pack(code, *values)',
                    got=back if is_raised(back) else back[:8], expected=exp[:8], fmt=fmt)
            back2 = attempt(bs.ConstBitStream(pl).readlist, fmt)
            require(not is_raised(back2) and all(same_value(g, e) for g, e in zip(back2, exp)), 'under lsb0 readlist(code) does not invert pack(code, *values)', got=back2 if is_raised(back2) else back2[:8], fmt=fmt)
        finally:
            bs.options.lsb0 = False
    return {'nt': nonpal(case), 'labels': [case['endian']] + [c for _, c, _ in case['items']]}


# ------------------------------------------------------------------------------------------- Array vs struct / array

@st.composite
def array_case(draw, tier):
    code = draw(st.sampled_from(sorted(CODES)))
    n = draw(st.integers(0, 12))
    return {'endian': draw(st.sampled_from('<>=@')), 'code': code, 'vals': draw(values_for(code, n)), 'swap': draw(st.booleans()),
            'how': draw(st.sampled_from(['direct', 'direct', 'from_bytes', 'dtype_reassign_u8', 'dtype_reassign_wide', 'dtype_reassign_other_endian', 'extend_empty']))}


def run_array(case):
    bs = bitstring_module()
    e, code = case['endian'], case['code']
    vals = [uv(v) for v in case['vals']]
    se = '=' if e == '@' else e
    ref = struct.pack(f'{se}{len(vals)}{code}', *vals)
    how = case.get('how', 'direct')

    def make():
        """an Array holding these items under dtype e+code, reached in different ways"""
        if how == 'direct' or (not vals and how != 'extend_empty'):
            return bs.Array(e + code, vals)
        if how == 'from_bytes':
            return bs.Array(e + code, ref)
        if how == 'extend_empty':
            x = bs.Array(e + code)
            x.extend(vals)
            return x
        # created with another dtype over the same bytes, the struct code assigned afterwards
        first = {'dtype_reassign_u8': 'uint8', 'dtype_reassign_wide': '<Q' if len(ref) % 8 == 0 else '<H' if len(ref) % 2 == 0 else 'uint8',
                 'dtype_reassign_other_endian': ('>' if e == '<' else '<') + code}[how]
        x = bs.Array(first, ref)
        x.dtype = e + code
        return x
    a = attempt(make)
    require(not is_raised(a), 'Array(struct code, values) raised', got=a, code=e + code, how=how)
    require(a.tobytes() == ref, 'Array(code, values).tobytes() differs from struct.pack', got=a.tobytes().hex()[:80], expected=ref.hex()[:80], code=e + code)
    exp = list(struct.unpack(f'{se}{len(vals)}{code}', ref))
    got = a.tolist()
    require(len(got) == len(exp) and all(same_value(g, x) for g, x in zip(got, exp)), 'Array items differ from struct.unpack', got=got[:8], expected=exp[:8])
    nm, nb = CODES[code]
    require(a.itemsize == nb, 'Array itemsize differs from the standard size of the code', got=a.itemsize, expected=nb)
    # byteswap converts between the two encodings
    if nb % 8 == 0:
        other = {'<': '>', '>': '<', '=': '>' if sys.byteorder == 'little' else '<', '@': '>' if sys.byteorder == 'little' else '<'}[e]
        b = make()
        b.byteswap()
        ref_other = struct.pack(f'{other}{len(vals)}{code}', *vals)
        require(b.tobytes() == ref_other, 'Array.byteswap does not convert to the other byte order', got=b.tobytes().hex()[:80], expected=ref_other.hex()[:80])
        b.byteswap()
        require(b.tobytes() == ref, 'Array.byteswap twice is not the identity')
        # with trailing bits (not a whole item, maybe not whole bytes): the items are swapped, the trailing bits stay what and where they are
        tr = ['1', '101', '0000000', '10110011', '1' * 9][(len(vals) + nb) % 5]
        if len(tr) < nb:
            c = make()
            c.data.append('0b' + tr)
            before_len = len(c.data)
            c.byteswap()
            want = ''.join(format(x, '08b') for x in ref_other) + tr
            require(c.data.bin == want and len(c.data) == before_len and c.trailing_bits.bin == tr, 'Array.byteswap with trailing bits must swap the items and leave the trailing bits alone',
                    got=c.data.bin[-40:], expected=want[-40:], trailing=tr)
            c.byteswap()
            require(c.data.bin == ''.join(format(x, '08b') for x in ref) + tr, 'Array.byteswap twice (with trailing bits) is not the identity')
    # same bytes as the array module when the platform item size is the standard one
    if e in '=@':
        try:
            arr = array.array(code, [v for v in vals]) if code != 'e' else None
        except (TypeError, ValueError, OverflowError):
            arr = None
        if arr is not None and arr.itemsize * 8 == nb and not any(isinstance(v, float) and math.isnan(v) for v in vals):
            require(a.tobytes() == arr.tobytes(), "Array('=X').tobytes() differs from array.array('X').tobytes()", code=code)
            require(a.equals(arr) is True, 'Array.equals(array.array) with matching kind, width and values must be True', code=code)
            # the same bytes seen through another typecode of the same item size: equal only if the items are
            for tc2 in 'bBhHiIlLqQfd':
                try:
                    other_arr = array.array(tc2)
                except ValueError:
                    continue
                if other_arr.itemsize * 8 != nb or tc2 == code or not vals:
                    continue
                other_arr.frombytes(arr.tobytes())
                lst = other_arr.tolist()
                if any(isinstance(v, float) and math.isnan(v) for v in lst):
                    continue
                want_eq = a.tolist() == lst
                require(a.equals(other_arr) is want_eq, 'Array.equals(array.array of another typecode with the same bytes) must compare the items, not the bytes', code=code, other=tc2,
                        got=a.equals(other_arr), expected=want_eq, items=a.tolist()[:4], other_items=lst[:4])
    pal = all(struct.pack('>' + code, v) == struct.pack('<' + code, v) for v in vals)
    return {'nt': nb > 8 and not pal, 'labels': [e, code]}


TYPECODES = ['b', 'B', 'h', 'H', 'i', 'I', 'l', 'L', 'q', 'Q', 'f', 'd', 'u']
DTYPES_FOR_ARRAY = ['int8', 'uint8', 'int16', 'uint16', 'int32', 'uint32', 'int64', 'uint64', 'intne16', 'uintne16', 'intne32', 'uintne32', 'intne64', 'uintne64',
                    'intle32', 'intbe32', 'floatne32', 'floatne64', 'float32', 'floatle64', 'uint12', 'hex8', 'bool']


@st.composite
def from_array_case(draw, tier):
    tc = draw(st.sampled_from(TYPECODES))
    n = draw(st.integers(0, 8))
    if tc == 'u':
        vals = [draw(st.sampled_from('abcxyz')) for _ in range(n)]
    elif tc in 'fd':
        vals = [v for v in draw(values_for(tc, n, allow_nan=False))]
    else:
        size = array.array(tc).itemsize * 8
        lo, hi = (-(1 << (size - 1)), (1 << (size - 1)) - 1) if tc.islower() else (0, (1 << size) - 1)
        vals = [draw(st.sampled_from([lo, hi, 0, 1, hi // 3]) | st.integers(lo, hi)) for _ in range(n)]
    return {'tc': tc, 'vals': vals, 'dtype': draw(st.sampled_from(DTYPES_FOR_ARRAY)), 'how': draw(st.sampled_from(['init', 'extend']))}


def run_from_array(case):
    bs = bitstring_module()
    tc = case['tc']
    vals = [uv(v) for v in case['vals']]
    arr = array.array(tc, vals)
    dt = bs.Dtype(case['dtype'])
    kind_ok = False
    size = arr.itemsize * 8
    if tc != 'u' and dt.bitlength == size:
        native_le = sys.byteorder == 'little'
        name = dt.name
        if tc in 'fd':
            kind_ok = name == ('floatle' if native_le else 'float')
        else:
            signed = tc.islower()
            if size == 8:
                kind_ok = name in (('int', 'intle', 'intbe') if signed else ('uint', 'uintle', 'uintbe'))
                # a bare int8 and intne8 describe the same bytes; the library may insist on the exact native name: both accepted below
            else:
                kind_ok = name == (('intle' if native_le else 'intbe') if signed else ('uintle' if native_le else 'uintbe'))
    if case['how'] == 'init':
        res = attempt(bs.Array, case['dtype'], arr)
        a = res
    else:
        a = bs.Array(case['dtype'])
        res = attempt(a.extend, arr)
    if is_raised(res):
        # rejecting is always allowed when kind or width differ; when they match it must be accepted
        if kind_ok and not (size == 8):
            require(False, 'Array rejected array.array input whose item kind and width match', got=res, dtype=case['dtype'], typecode=tc)
        require(is_raised(res, ValueError, TypeError), 'mismatched array.array input must raise ValueError/TypeError', got=res)
        return {'nt': True, 'labels': ['rejected', tc]}
    # accepted: then kind and width must match and the values must read back
    require(kind_ok, 'Array accepted array.array input whose item kind or width does not match its dtype', dtype=case['dtype'], typecode=tc,
            array_itemsize_bits=size, dtype_bits=dt.bitlength, data_len=len(a.data))
    got = a.tolist()
    require(len(got) == len(vals) and all(same_value(g, x) if isinstance(x, float) else g == x for g, x in zip(got, arr.tolist())),
            'array.array input does not read back to the same values', got=got[:8], expected=arr.tolist()[:8], dtype=case['dtype'], typecode=tc)
    return {'nt': len(vals) > 0, 'labels': ['accepted', tc]}


# ------------------------------------------------------------------------------------------- endian relations

@st.composite
def endian_case(draw, tier):
    nbytes = draw(st.sampled_from([1, 2, 3, 4, 5, 8, 9, 16]) | st.integers(1, 20))
    return {'bits': draw(bits_of_len(8 * nbytes)), 'cls': draw(cls_st), 'mcls': draw(mcls_st)}


def run_endian(case):
    bs = bitstring_module()
    bits = case['bits']
    n = len(bits)
    x = mk(case['cls'], bits)
    rev = cls_of(case['cls'])(bytes=x.bytes[::-1])
    little = sys.byteorder == 'little'
    require(x.uintle == rev.uintbe and x.uintbe == rev.uintle, 'uintle is not uintbe of the byte-reversed bits')
    require(x.intle == rev.intbe and x.intbe == rev.intle, 'intle is not intbe of the byte-reversed bits')
    require(x.uintbe == x.uint == int(bits, 2) and x.intbe == x.int, 'big-endian forms differ from the plain integer interpretation')
    require(x.uintle == int.from_bytes(x.bytes, 'little') and x.intle == int.from_bytes(x.bytes, 'little', signed=True), 'little-endian forms differ from int.from_bytes')
    require(x.uintne == (x.uintle if little else x.uintbe) and x.intne == (x.intle if little else x.intbe), 'native-endian form is not the one sys.byteorder says')
    if n in (16, 32, 64):
        require(same_value(x.floatle, rev.floatbe) and same_value(x.floatbe, x.float), 'floatle is not floatbe of the byte-reversed bits')
        require(same_value(x.floatne, x.floatle if little else x.floatbe), 'floatne is not the sys.byteorder form')
        ref = struct.unpack('<' + {16: 'e', 32: 'f', 64: 'd'}[n], x.bytes)[0]
        require(same_value(x.floatle, ref), 'floatle differs from struct')
    if n == 16:
        require(same_value(x.bfloatle, rev.bfloatbe) and same_value(x.bfloat, x.bfloatbe), 'bfloatle is not bfloatbe of the byte-reversed bits')
        require(same_value(x.bfloatne, x.bfloatle if little else x.bfloatbe), 'bfloatne is not the sys.byteorder form')
    # byteswap converts between the encodings; twice is the identity
    y = mk(case['mcls'], bits)
    r = y.byteswap()
    require(y.bytes == x.bytes[::-1] and len(y) == n, 'byteswap() does not reverse the bytes')
    require(y.uintbe == x.uintle and y.uintle == x.uintbe, 'byteswap() does not convert between the little- and big-endian encodings')
    y.byteswap()
    require(y.bin == bits, 'byteswap() twice is not the identity')
    b = x.bytes
    return {'nt': b != b[::-1], 'labels': ['bytes=%d' % min(n // 8, 9)]}


@st.composite
def record_swap_case(draw, tier):
    """records laid out with struct in one byte order, behind an optional header; byteswap with the record's format converts them to the other order"""
    codes = draw(st.lists(st.sampled_from(sorted(CODES)), min_size=1, max_size=4))
    if draw(st.integers(0, 5)) == 0:
        # ten or more of the same code in a row: written with a two-digit count in the 'counted' spelling
        run = [draw(st.sampled_from(['h', 'H', 'b', 'i', 'e']))] * draw(st.sampled_from([10, 11, 12, 20]))
        codes = (codes[:1] if draw(st.booleans()) else []) + run + (codes[1:2] if draw(st.booleans()) else [])
    nrec = draw(st.integers(1, 3))
    vals = [[draw(values_for(c, 1, allow_nan=False))[0] for c in codes] for _ in range(nrec)]
    return {'codes': codes, 'vals': vals, 'header': draw(st.integers(0, 3)), 'tail': draw(st.integers(0, 2)), 'order': draw(st.sampled_from('<>')),
            'fmt_kind': draw(st.sampled_from(['str_plain', 'str_at', 'str_eq', 'str_lt', 'str_gt', 'int_list', 'int_tuple', 'counted'])), 'repeat': draw(st.booleans()),
            'explicit_end': draw(st.booleans()), 'cls': draw(mcls_st), 'partial': draw(st.integers(0, 3))}


def run_record_swap(case):
    bs = bitstring_module()
    codes, order = case['codes'], case['order']
    other = '>' if order == '<' else '<'
    recs = [[uv(v) for v in rec] for rec in case['vals']]
    body = b''.join(struct.pack(order + ''.join(codes), *rec) for rec in recs)
    body_other = b''.join(struct.pack(other + ''.join(codes), *rec) for rec in recs)
    one = len(body) // len(recs)
    header, tail = bytes(range(1, case['header'] + 1)), bytes([0xee] * case['tail'])
    kind = case['fmt_kind']
    if kind.startswith('str_'):
        fmt = {'plain': '', 'at': '@', 'eq': '=', 'lt': '<', 'gt': '>'}[kind[4:]] + ''.join(codes)
    elif kind == 'counted':
        # equal neighbours written with a count, as struct allows
        parts = []
        for c in codes:
            if parts and parts[-1][0] == c:
                parts[-1][1] += 1
            else:
                parts.append([c, 1])
        fmt = ''.join((str(k) if k > 1 else '') + c for c, k in parts)
    else:
        sizes = [CODES[c][1] // 8 for c in codes]
        fmt = sizes if kind == 'int_list' else tuple(sizes)
    # an incomplete further record inside the range (its first items only): the pattern does not fit there, so it is left alone
    partial = b''
    if case.get('partial') and len(codes) >= 2:
        k = 1 + case['partial'] % (len(codes) - 1)
        partial = struct.pack(order + ''.join(codes[:k]), *recs[0][:k])
        if len(partial) >= one:
            partial = b''
    x = cls_of(case['cls'])(bytes=header + body + partial + tail)
    start = 8 * len(header)
    repeat = case['repeat']
    end = 8 * (len(header) + len(body) + len(partial)) if (case['explicit_end'] or tail) else None
    r = attempt(x.byteswap, fmt, start, end, repeat)
    require(not is_raised(r), 'byteswap with the format of the records raised', got=r, fmt=fmt, start=start, end=end, repeat=repeat)
    nswapped = len(recs) if repeat else 1
    want = header + body_other[:one * nswapped] + body[one * nswapped:] + partial + tail
    body = body + partial           # for the identity check below
    require(x.bytes == want, 'byteswap(record format) does not convert the records to the other byte order', fmt=fmt, start=start, end=end, repeat=repeat,
            got=x.bytes.hex()[:80], expected=want.hex()[:80])
    require(r == nswapped, 'byteswap does not return the number of repeats it performed', got=r, expected=nswapped)
    x.byteswap(fmt, start, end, repeat)
    require(x.bytes == header + body + tail, 'the same byteswap applied twice is not the identity', fmt=fmt)
    return {'nt': body != body_other, 'labels': [kind, 'repeat' if repeat else 'once', 'header' if header else 'no-header']}


@st.composite
def involution_case(draw, tier):
    nbytes = draw(st.integers(0, 24))
    extra = draw(st.sampled_from([0, 0, 0, 1, 7]))
    bits = draw(bits_of_len(8 * nbytes + extra))
    op = draw(c03.op_st(['byteswap']))
    return {'bits': bits, 'op': op, 'cls': draw(mcls_st)}


def run_involution(case):
    bits = case['bits']
    op = case['op']
    x = mk(case['cls'], bits)
    r, objs = c03.resolve(op, bits)
    first = attempt(c03.call_impl, x, op, r, objs)
    if is_raised(first):
        require(x.bin == bits, 'a raising byteswap changed the content')
        return {'nt': False, 'labels': ['raises']}
    mid = x.bin
    require(len(mid) == len(bits), 'byteswap changed the length')
    second = attempt(c03.call_impl, x, op, r, objs)
    require(not is_raised(second) and second == first, 'second byteswap behaved differently', first=first, second=second)
    require(x.bin == bits, 'applying byteswap(fmt) twice is not the identity', fmt=op['fmt'], start=r['start'], end=r['end'], before=bits[:80], after=x.bin[:80])
    return {'nt': mid != bits, 'labels': ['fmt=%s' % type(op['fmt']).__name__, 'repeats=%s' % first]}


SUBCHECKS = [
    Sub('C18.pack_unpack_vs_struct', run_pack, strategy=fmt_case, examples={'quick': 10000, 'thorough': 150000}, ambient=('bytealigned',)),
    Sub('C18.array_vs_struct', run_array, strategy=array_case, examples={'quick': 6000, 'thorough': 80000}),
    Sub('C18.array_from_array', run_from_array, strategy=from_array_case, examples={'quick': 6000, 'thorough': 80000}),
    Sub('C18.endian_relation_byteswap', run_endian, strategy=endian_case, examples={'quick': 5000, 'thorough': 60000}),
    Sub('C18.record_byteswap', run_record_swap, strategy=record_swap_case, examples={'quick': 5000, 'thorough': 60000}),
    Sub('C18.byteswap_involution', run_involution, strategy=involution_case, examples={'quick': 6000, 'thorough': 80000}),
]
