"""C07 - search, split and count equal the brute-force definition."""
from hypothesis import strategies as st

from vf.engine import Sub, require, bitstring_module
from vf.common import (bits_st, bits_of_len, window_st, norm_window, cls_st, mk, attempt, is_raised, Raised, lenbucket,
                       make_promotable, promo_ok, MUTABLE)

RULE = ("cases = (class, data, pattern, start, end, count, bytealigned argument, options.bytealigned) with data random/periodic/"
        "constant/sparse and the pattern planted at drawn offsets; non-trivial = at least one occurrence of the pattern in the data "
        "AND (window is not the whole string OR byte-alignment is in force OR count given); distinct = SHA-1 of the canonical JSON case")
ASSUMPTIONS = ["the `in` operator ignores options.bytealigned (the code passes bytealigned=False explicitly; docs: 'can be found')",
               "replace/split with count=0 return nothing before validating the range (accepted either way)"]


# ---------------------------------------------------------------------------------------------
# model

def all_matches(data, pat, s, e, aligned):
    n = len(pat)
    out = []
    p = data.find(pat, s)
    while p != -1 and p + n <= e:
        if not aligned or p % 8 == 0:
            out.append(p)
        p = data.find(pat, p + 1)
    return out


def brute_matches(data, pat, s, e, aligned):
    n = len(pat)
    return [p for p in range(s, e - n + 1) if data[p:p + n] == pat and (not aligned or p % 8 == 0)]


def greedy(matches, n):
    out = []
    for p in matches:
        if not out or p >= out[-1] + n:
            out.append(p)
    return out


def selftest():
    assert brute_matches('0110110', '11', 0, 7, False) == [1, 4]
    assert all_matches('0110110', '11', 0, 7, False) == [1, 4]
    assert all_matches('1111', '11', 0, 4, False) == [0, 1, 2]
    assert greedy([0, 1, 2], 2) == [0, 2]
    assert all_matches('1' * 20, '1' * 8, 3, 20, True) == [8]
    import random
    r = random.Random(5)
    for _ in range(300):
        d = ''.join(r.choice('01') for _ in range(r.randrange(0, 40)))
        p = ''.join(r.choice('01') for _ in range(r.randrange(1, 5)))
        s = r.randrange(0, len(d) + 1)
        e = r.randrange(s, len(d) + 1)
        for al in (False, True):
            assert all_matches(d, p, s, e, al) == brute_matches(d, p, s, e, al)
    # documented examples
    bs = bitstring_module()
    assert [b.bin for b in bs.Bits('0x42423').split('0x4')] == ['', '01000', '01001000', '0100011']


# ---------------------------------------------------------------------------------------------
# generator

@st.composite
def pattern_st(draw):
    k = draw(st.integers(0, 9))
    if k <= 1:
        n = draw(st.sampled_from([8, 16, 24]))
    elif k <= 6:
        n = draw(st.integers(1, 6))
    else:
        n = draw(st.integers(1, 20))
    return draw(bits_of_len(n))


@st.composite
def data_with_pattern(draw, max_len, long=False):
    pat = draw(pattern_st())
    data = draw(bits_st(max_len=max_len, long=long))
    nplant = draw(st.integers(0, 4))
    if data and nplant:
        l = list(data)
        for _ in range(nplant):
            if draw(st.booleans()):
                off = 8 * draw(st.integers(0, len(data) // 8))
            else:
                off = draw(st.integers(0, len(data)))
            l[off:off + len(pat)] = list(pat)
        data = ''.join(l)[:max(len(data), 0) + 24]
    return data, pat


@st.composite
def case_st(draw, ops, max_len=300, long=False):
    op = draw(st.sampled_from(ops))
    data, pat = draw(data_with_pattern(max_len, long))
    n = len(data)
    w = draw(window_st(n))
    case = {'op': op, 'cls': draw(cls_st), 'data': data, 'pat': pat, 'start': w[0], 'end': w[1],
            'ba': draw(st.sampled_from([None, None, False, True])), 'opt_ba': draw(st.sampled_from([False, False, True])),
            'count': draw(st.sampled_from([None, None, 0, 1, 2, 3, 10, -1])) if op in ('findall', 'split', 'replace', 'cut') else None}
    if draw(st.integers(0, 24)) == 0 and op not in ('count', 'cut'):
        case['pat'] = ''
    if op == 'replace':
        case['cls'] = draw(st.sampled_from(MUTABLE))
        case['new'] = draw(bits_st(max_len=12))
    if op == 'cut':
        case['bits'] = draw(st.sampled_from([1, 2, 3, 7, 8, 9, 16, 0, -1, 1000000])) if draw(st.booleans()) else draw(st.integers(1, max(1, n + 2)))
    if op in ('startswith', 'endswith') and draw(st.booleans()) and n:
        # make prefixes/suffixes likely
        ww = norm_window(w[0], w[1], n)
        if ww:
            k = draw(st.integers(0, min(20, ww[1] - ww[0])))
            case['pat'] = data[ww[0]:ww[0] + k] if op == 'startswith' else data[ww[1] - k:ww[1]]
    if op == 'count':
        case['value'] = draw(st.sampled_from([0, 1, True, False, 2, -1]))
    kinds = ['obj', 'str_bin', 'bytes', 'list', 'bitarray']
    case['pkind'] = draw(st.sampled_from(kinds)) if draw(st.integers(0, 3)) == 0 else 'obj'
    return case


def _pattern_operand(case):
    pat = case['pat']
    k = case.get('pkind', 'obj')
    if k != 'obj' and promo_ok(k, pat):
        return make_promotable(k, pat)
    return mk('Bits', pat)


# ---------------------------------------------------------------------------------------------
# the check

def run(case):
    bs = bitstring_module()
    op = case['op']
    from vf.common import expand_bits
    if isinstance(case['data'], dict):
        case = dict(case, data=expand_bits(case['data']))
    data, pat = case['data'], case['pat']
    n = len(data)
    s_arg, e_arg = case['start'], case['end']
    ba_arg, opt_ba = case['ba'], case['opt_ba']
    count = case.get('count')
    bs.options.bytealigned = opt_ba
    aligned = opt_ba if ba_arg is None else ba_arg
    obj = mk(case['cls'], data)
    win = norm_window(s_arg, e_arg, n)
    labels = [op, 'ba=%s/%s' % (ba_arg, opt_ba), lenbucket(n)]
    nt = False

    def need_valueerror(res, why):
        require(is_raised(res, ValueError), f'{op}: expected ValueError ({why})', got=res, case=case)

    if op in ('find', 'rfind'):
        res = attempt(getattr(obj, op), _pattern_operand(case), s_arg, e_arg, ba_arg)
        if pat == '' or win is None:
            need_valueerror(res, 'empty pattern' if pat == '' else 'invalid range')
            labels.append('raises')
        else:
            m = all_matches(data, pat, win[0], win[1], aligned)
            exp = () if not m else ((m[0],) if op == 'find' else (m[-1],))
            require(not is_raised(res), f'{op} raised', got=res)
            require(res == exp, f'{op} result differs from brute force', got=res, expected=exp)
            nt = bool(m)
            labels.append('hit' if m else 'miss')
    elif op == 'findall':
        def f():
            return list(obj.findall(_pattern_operand(case), s_arg, e_arg, count, ba_arg))
        res = attempt(f)
        if pat == '' or win is None or (count is not None and count < 0):
            need_valueerror(res, 'empty pattern / invalid range / negative count')
            labels.append('raises')
        else:
            m = all_matches(data, pat, win[0], win[1], aligned)
            exp = m if count is None else m[:count]
            require(not is_raised(res), 'findall raised', got=res)
            require(res == exp, 'findall differs from brute force', got=res[:20], expected=exp[:20])
            nt = bool(m)
            labels.append('n=%d' % min(len(m), 5))
    elif op == 'in':
        res = attempt(lambda: _pattern_operand(case) in obj)
        if pat == '':
            need_valueerror(res, 'empty pattern')
        else:
            exp = data.find(pat) != -1
            require(res is exp, '`in` differs from brute force', got=res, expected=exp)
            nt = exp
    elif op in ('startswith', 'endswith'):
        res = attempt(getattr(obj, op), _pattern_operand(case), s_arg, e_arg)
        if win is None:
            need_valueerror(res, 'invalid range')
        else:
            sub = data[win[0]:win[1]]
            exp = sub.startswith(pat) if op == 'startswith' else sub.endswith(pat)
            require(res is exp, f'{op} differs from the str model', got=res, expected=exp)
            nt = exp and pat != ''
    elif op == 'count':
        v = case['value']
        res = attempt(obj.count, v)
        exp = data.count('1') if v else data.count('0')
        require(res == exp, 'count differs', got=res, expected=exp)
        nt = n > 0
    elif op == 'cut':
        b = case['bits']

        def f():
            return [x.bin for x in obj.cut(b, s_arg, e_arg, count)]
        res = attempt(f)
        if win is None or b <= 0 or (count is not None and count < 0):
            need_valueerror(res, 'invalid range / bits / count')
        else:
            sub = data[win[0]:win[1]]
            exp = [sub[i:i + b] for i in range(0, len(sub), b)]
            if count is not None:
                exp = exp[:count]
            require(not is_raised(res), 'cut raised', got=res)
            require(res == exp, 'cut differs from fixed chunking', got=res[:10], expected=exp[:10])
            nt = len(exp) >= 2
    elif op == 'split':
        def f():
            items = list(obj.split(_pattern_operand(case), s_arg, e_arg, count, ba_arg))
            for it in items:
                require(type(it) is type(obj), 'split item has a different class', got=type(it).__name__)
            return [x.bin for x in items]
        res = attempt(f)
        if count == 0 and (pat == '' or win is None):
            pass  # returns nothing before/after validation: either accepted
        elif pat == '' or win is None or (count is not None and count < 0):
            need_valueerror(res, 'empty delimiter / invalid range / negative count')
        else:
            m = greedy(all_matches(data, pat, win[0], win[1], aligned), len(pat))
            cuts = [win[0]] + m + [win[1]]
            exp = [data[cuts[i]:cuts[i + 1]] for i in range(len(cuts) - 1)]
            if count is not None:
                exp = exp[:count]
            require(not is_raised(res), 'split raised', got=res)
            require(res == exp, 'split differs from greedy non-overlapping model', got=res[:10], expected=exp[:10])
            nt = bool(m)
    elif op == 'replace':
        new = case['new']
        res = attempt(obj.replace, _pattern_operand(case), mk('Bits', new), s_arg, e_arg, count, ba_arg)
        if count == 0:
            require(obj.bin == data, 'replace(count=0) changed the content')
            require(is_raised(res) or res == 0, 'replace(count=0) must return 0', got=res)
        elif pat == '' or win is None:
            need_valueerror(res, 'empty pattern / invalid range')
            require(obj.bin == data, 'content changed by a raising replace')
        elif count is not None and count < 0:
            # negative count is not documented; accept an exception or "replace all"; content must be consistent
            if is_raised(res):
                require(obj.bin == data, 'content changed by a raising replace')
        else:
            m = greedy(all_matches(data, pat, win[0], win[1], aligned), len(pat))
            if count is not None:
                m = m[:count]
            out = []
            prev = 0
            for p in m:
                out.append(data[prev:p])
                out.append(new)
                prev = p + len(pat)
            out.append(data[prev:])
            exp = ''.join(out)
            require(not is_raised(res), 'replace raised', got=res)
            require(res == len(m), 'replace returned the wrong count', got=res, expected=len(m))
            require(obj.bin == exp, 'replace selected different matches than the brute-force model', got=obj.bin[:80], expected=exp[:80])
            nt = bool(m)
    else:
        raise AssertionError(op)
    if op not in ('replace',):
        require(obj.bin == data, f'{op} modified the object')
    whole = win is not None and win == (0, n)
    nt = bool(nt and (not whole or aligned or count is not None or op in ('count', 'cut', 'in')))
    return {'nt': nt, 'labels': labels}


@st.composite
def big_case_st(draw, tier):
    """megabit-scale periodic data (stored compactly), windows near the ends and around power-of-two offsets, small counts"""
    from vf.common import big_bits_st, expand_bits
    spec = draw(big_bits_st())
    n = spec['n']
    unit = spec['unit']
    op = draw(st.sampled_from(['find', 'rfind', 'findall', 'in', 'startswith', 'endswith', 'count', 'split', 'replace', 'cut']))
    k = draw(st.integers(0, 3))
    if k == 0:
        pat = draw(pattern_st())                       # probably absent or very frequent
    else:
        rot = draw(st.integers(0, len(unit) - 1))
        base = (unit[rot:] + unit[:rot]) * 3
        pat = base[:draw(st.integers(1, min(len(base), 40)))]
    edges = [0, 1, 7, 8, n - 1, n - 8, n - 9, n, n // 2, 65536, 65535, 8192, 524288, 262144 + 3]
    a = draw(st.sampled_from(edges + [None]))
    b = draw(st.sampled_from(edges + [None]))
    if a is not None and b is not None and a > b:
        a, b = b, a
    a = None if a is None else max(0, min(a, n))
    b = None if b is None else max(0, min(b, n))
    case = {'op': op, 'cls': draw(cls_st), 'data': spec, 'pat': pat, 'start': a, 'end': b, 'ba': draw(st.sampled_from([None, False, True])), 'opt_ba': draw(st.sampled_from([False, False, True])),
            'count': draw(st.sampled_from([1, 2, 5])) if op in ('findall', 'split', 'replace', 'cut') else None, 'pkind': 'obj'}
    if op == 'replace':
        case['cls'] = draw(st.sampled_from(MUTABLE))
        case['new'] = draw(bits_st(max_len=12))
    if op == 'cut':
        case['bits'] = draw(st.sampled_from([n // 3 + 1, 65536, 8, 100000, n, n + 5]))
    if op == 'count':
        case['value'] = draw(st.booleans())
    return case


def known_none(case):
    return False


def _sub(name, ops, quick, thorough, max_len=300, long=False):
    return Sub('C07.' + name, run, strategy=lambda tier, ops=ops: case_st(ops, max_len=max_len if tier == 'quick' or not long else 17000, long=long),
               examples={'quick': quick, 'thorough': thorough})


@st.composite
def straddle_case_st(draw, tier):
    """tens of kilobits of filler with a multi-byte pattern planted once or twice across / next to multiples of 1024 bytes (and of 512, 4096 bytes): searches
    that work through the data in blocks must not lose an occurrence that straddles a block boundary"""
    nbytes = draw(st.sampled_from([1100, 2100, 3000, 4200, 8300]))
    fill = draw(st.sampled_from(['00000000', '11111111', '01010101', '00000001']))
    plen = draw(st.integers(2, 4))
    pat = ''.join(draw(st.lists(bits_of_len(8), min_size=plen, max_size=plen)))
    if pat == fill * plen:
        pat = pat[:-1] + ('1' if pat[-1] == '0' else '0')
    lead = draw(st.sampled_from([0, 0, 1, 3, 7]))           # bytes before the first block starts to count (the start of the search)
    block = draw(st.sampled_from([1024, 1024, 1024, 512, 4096, 2048]))
    spots = []
    for _ in range(draw(st.integers(1, 2))):
        k = draw(st.integers(1, max(1, (nbytes - 8) // block)))
        spots.append(lead + k * block - draw(st.integers(0, plen)))      # 0..plen bytes before the boundary: straddling, or just at / before it
    data = bytearray(int(fill, 2) for _ in range(nbytes))
    pb = bytes(int(pat[i:i + 8], 2) for i in range(0, len(pat), 8))
    for sp in spots:
        if 0 <= sp <= nbytes - plen:
            data[sp:sp + plen] = pb
    bits = ''.join(format(b, '08b') for b in data) + draw(st.sampled_from(['', '', '101']))
    op = draw(st.sampled_from(['find', 'rfind', 'findall', 'findall', 'in', 'split', 'replace', 'find']))
    case = {'op': op, 'cls': draw(cls_st), 'data': {'unit': bits, 'n': len(bits)}, 'pat': pat, 'start': draw(st.sampled_from([None, 8 * lead, 8 * lead, 8 * lead + 3])) if lead else None,
            'end': draw(st.sampled_from([None, None, len(bits), len(bits) - 5])), 'ba': draw(st.sampled_from([True, True, None, False])), 'opt_ba': draw(st.sampled_from([False, True])),
            'count': draw(st.sampled_from([None, 1, 2, 5])) if op in ('findall', 'split', 'replace') else None, 'pkind': 'obj'}
    if op == 'replace':
        case['cls'] = draw(st.sampled_from(MUTABLE))
        case['new'] = draw(bits_st(max_len=16))
    return case


SUBCHECKS = [
    _sub('find', ['find'], 4000, 80000),
    _sub('rfind', ['rfind'], 4000, 80000),
    _sub('findall', ['findall'], 4000, 80000),
    _sub('contains', ['in'], 1500, 30000),
    _sub('startswith_endswith', ['startswith', 'endswith'], 3000, 40000),
    _sub('count', ['count'], 800, 10000),
    _sub('cut', ['cut'], 2000, 30000),
    _sub('split', ['split'], 4000, 80000),
    _sub('replace', ['replace'], 4000, 80000),
    Sub('C07.big_data', run, strategy=big_case_st, examples={'quick': 300, 'thorough': 5000}),
    Sub('C07.block_straddle', run, strategy=straddle_case_st, examples={'quick': 1600, 'thorough': 20000}),
    Sub('C07.long_data', run, strategy=lambda tier: case_st(['find', 'rfind', 'findall', 'split', 'replace', 'in'], max_len=17000, long=True),
        examples={'quick': 600, 'thorough': 12000}),
]
