"""C16 - bit-wise operators and shifts are per-bit boolean functions with fixed length."""
from hypothesis import strategies as st

from vf.engine import Sub, require, bitstring_module
from vf.common import (cls_of, bits_st, bits_of_len, cls_st, mcls_st, mk, attempt, is_raised, lenbucket, CLASSES, MUTABLE,
                       make_promotable, promo_ok, PROMO_KINDS, MEM_ROUTES, build_route)

RULE = ("cases = (operator, class of each operand or promotable kind, contents, shift count, construction route); non-trivial = length >= 2 "
        "and operands not both constant (logic) / 0 < n < len (shift) / an error case with non-empty operands; distinct = SHA-1 of the case. "
        "small_world enumerates all pairs of contents of equal length <= 5 (quick) / 7 (thorough) and all shift counts.")
ASSUMPTIONS = ["the class of the result of &,|,^,~,<<,>> is not pinned by the statement and is not asserted",
               "unequal lengths must raise ValueError; ~ of empty must raise bitstring.Error; shifts of empty / negative n raise ValueError"]

OPS = {'&': lambda x, y: x & y, '|': lambda x, y: x | y, '^': lambda x, y: x ^ y}


def fmt(v, n):
    return format(v, f'0{n}b') if n else ''


def model_logic(op, a, b):
    n = len(a)
    return fmt(OPS[op](int(a, 2) if a else 0, int(b, 2) if b else 0), n)


def model_shift(op, a, k):
    n = len(a)
    if k >= n:
        return '0' * n
    v = int(a, 2)
    if op == '<<':
        return fmt((v << k) & ((1 << n) - 1), n)
    return fmt(v >> k, n)


def selftest():
    assert model_logic('&', '1100', '1010') == '1000'
    assert model_logic('^', '1100', '1010') == '0110'
    assert model_shift('<<', '0011', 1) == '0110' and model_shift('>>', '0011', 1) == '0001'
    assert model_shift('<<', '0011', 9) == '0000'


def apply(op, x, y):
    if op == '&':
        return x & y
    if op == '|':
        return x | y
    return x ^ y


def iapply(op, x, y):
    if op == '&':
        x &= y
    elif op == '|':
        x |= y
    else:
        x ^= y
    return x


@st.composite
def pair_st(draw, max_len):
    a = draw(bits_st(max_len=max_len, long=True))
    k = draw(st.integers(0, 9))
    if k == 0:
        b = draw(bits_st(max_len=max_len))  # probably unequal
    else:
        b = draw(bits_of_len(len(a)))
    return a, b


# ------------------------------------------------------------------------------------------- logic vs int model

@st.composite
def logic_case(draw, tier):
    a, b = draw(pair_st(300 if tier == 'quick' else 2100))
    side = draw(st.sampled_from(['obj', 'obj', 'promo_right', 'promo_left', 'self']))
    case = {'op': draw(st.sampled_from('&|^')), 'a': a, 'b': b, 'cls': draw(cls_st), 'side': side,
            'route': [draw(st.sampled_from(MEM_ROUTES)), draw(st.integers(0, 40))]}
    if side == 'obj':
        case['other'] = draw(cls_st)
    elif side == 'self':
        case['b'] = a
    else:
        pb = b if side == 'promo_right' else a
        kinds = [k for k in PROMO_KINDS if k not in CLASSES and promo_ok(k, pb)]
        if side == 'promo_left':
            kinds = [k for k in kinds if k in ('str_bin', 'str_hex', 'bytes', 'bytearray', 'list', 'tuple', 'memoryview', 'array')]
        case['other'] = draw(st.sampled_from(kinds))
    if case['cls'] in MUTABLE and side in ('self', 'obj') and draw(st.integers(0, 2)) == 0:
        # the left operand has just been produced by an in-place operator (whole-length shifts and friends return fresh constants internally)
        case['prep'] = draw(st.sampled_from(['ilshift_all', 'irshift_all', 'iand_zeros', 'ior_ones', 'ixor_self', 'ilshift_1', 'imul_1', 'invert']))
    return case


def apply_prep(x, a, how):
    """in-place preparation of a mutable operand; returns its new content"""
    n = len(a)
    if n == 0:
        return a
    if how == 'ilshift_all':
        x <<= n + 3
        return '0' * n
    if how == 'irshift_all':
        x >>= n
        return '0' * n
    if how == 'iand_zeros':
        x &= mk('Bits', '0' * n)
        return '0' * n
    if how == 'ior_ones':
        x |= mk('Bits', '1' * n)
        return '1' * n
    if how == 'ixor_self':
        x ^= mk('Bits', a)
        return '0' * n
    if how == 'ilshift_1':
        x <<= 1
        return a[1:] + '0'
    if how == 'imul_1':
        x *= 1
        return a
    x.invert()
    return ''.join('1' if c == '0' else '0' for c in a)


def apply_inplace(op, z, other):
    if op == '&':
        z &= other
    elif op == '|':
        z |= other
    else:
        z ^= other
    return z


def run_logic(case):
    bs = bitstring_module()
    op, a, b = case['op'], case['a'], case['b']
    side = case['side']
    prep = case.get('prep')
    if side == 'promo_left':
        x = make_promotable(case['other'], a)
        y = build_route(case['cls'], b, *case['route'])
        keep = [(y, b)]
    elif side == 'self':
        x = y = build_route(case['cls'], a, *case['route'])
        if prep:
            a = b = apply_prep(x, a, prep)
            require(x.bin == a, 'in-place preparation differs from its model', prep=prep, got=x.bin[:60], expected=a[:60])
        keep = [(x, a)]
    else:
        x = build_route(case['cls'], a, *case['route'])
        if prep:
            a = apply_prep(x, a, prep)
            require(x.bin == a, 'in-place preparation differs from its model', prep=prep, got=x.bin[:60], expected=a[:60])
        y = mk(case['other'], b) if side == 'obj' else make_promotable(case['other'], b)
        keep = [(x, a)] + ([(y, b)] if side == 'obj' else [])
    # a stream operand's read position is part of the operand: park it somewhere and look again afterwards
    parked = []
    for o, d in keep:
        if hasattr(o, 'pos') and len(d):
            o.pos = (len(d) + 1) // 2
            parked.append((o, o.pos))
    res = attempt(apply, op, x, y)
    for o, p in parked:
        require(o.pos == p, f'{op} moved the read position of a stream operand', before=p, after=o.pos, side=side, cls=type(o).__name__)
    if not is_raised(res) and side == 'self' and type(x).__name__ in ('BitArray', 'BitStream'):
        require(res is not x, f'x {op} x returned the mutable operand itself')
    if len(a) != len(b):
        require(is_raised(res, ValueError), 'unequal lengths must raise ValueError', got=res, la=len(a), lb=len(b))
        lab = 'unequal'
        nt = bool(a and b)
    else:
        require(not is_raised(res), f'{op} raised on equal lengths', got=res, n=len(a))
        exp = model_logic(op, a, b)
        require(res.bin == exp and len(res) == len(a), f'{op} differs from the integer model', got=res.bin[:80], expected=exp[:80])
        lab = 'equal'
        nt = len(a) >= 2 and not (len(set(a)) == 1 and len(set(b)) == 1)
        # the result is an ordinary bitstring: it can be an operand again, of any operator, next to any class
        n_ = len(exp)
        if n_:
            for k_, cname in enumerate(CLASSES):
                other_op = '&|^'[(k_ + n_) % 3]
                mate = mk(cname, a)
                r2 = attempt(apply, other_op, mate, res)
                require(not is_raised(r2) and r2.bin == model_logic(other_op, a, exp), 'the result of an operator cannot be used as the right operand of another one', got=r2, cls=cname, op2=other_op)
                r3 = attempt(apply, other_op, res, mate)
                require(not is_raised(r3) and r3.bin == model_logic(other_op, exp, a), 'the result of an operator cannot be used as the left operand of another one', got=r3, cls=cname, op2=other_op)
                conv = attempt(cls_of(cname), res)
                require(not is_raised(conv) and conv.bin == exp, 'the result of an operator cannot be converted to another class', got=conv, cls=cname)
                if cname in MUTABLE:
                    z = mk(cname, a)
                    rz = attempt(lambda: apply_inplace(other_op, z, res))
                    require(not is_raised(rz) and z.bin == model_logic(other_op, a, exp), 'the result of an operator cannot be used as the operand of an in-place operator', got=rz, cls=cname, op2=other_op)
            rr = attempt(apply, '|', res, res)
            require(not is_raised(rr) and rr.bin == exp, 'r | r on the result of an operator failed', got=rr)
            inv = attempt(lambda: ~res)
            require(not is_raised(inv) and len(inv) == n_, '~ on the result of an operator failed', got=inv)
        # mutating the result must never reach a mutable operand
        if isinstance(res, bs.BitArray) and len(res):
            res.invert()
    for o, d in keep:
        require(o.bin == d and len(o) == len(d), f'{op} modified an operand', got=o.bin[:80], expected=d[:80], side=side)
    return {'nt': nt, 'labels': [op, side, lab, case['cls'], lenbucket(len(a))]}


# ------------------------------------------------------------------------------------------- laws

@st.composite
def laws_case(draw, tier):
    a, b = draw(pair_st(300))
    b = draw(bits_of_len(len(a)))
    return {'a': a, 'b': b, 'cls': draw(cls_st), 'cls2': draw(cls_st)}


def run_laws(case):
    bs = bitstring_module()
    a, b = case['a'], case['b']
    n = len(a)
    s, t = mk(case['cls'], a), mk(case['cls2'], b)
    if n == 0:
        r = attempt(lambda: ~s)
        require(is_raised(r, bs.Error), '~ of an empty bitstring must raise bitstring.Error', got=r)
        return {'nt': False, 'labels': ['empty']}
    inv = ~s
    require(inv.bin == ''.join('1' if c == '0' else '0' for c in a), '~ is not the per-bit complement', got=inv.bin[:80], a=a[:80])
    require((~inv).bin == a, '~~s != s')
    require((s ^ s).bin == '0' * n, 's ^ s is not all zeros')
    require((s & s).bin == a and (s | s).bin == a, 's & s == s | s == s violated')
    require((~(s & t)).bin == ((~s) | (~t)).bin, 'De Morgan (and) violated')
    require((~(s | t)).bin == ((~s) & (~t)).bin, 'De Morgan (or) violated')
    require((s ^ t).bin == ((s | t) & ~(s & t)).bin, 'xor identity violated')
    require((s & t).bin == (t & s).bin and (s | t).bin == (t | s).bin and (s ^ t).bin == (t ^ s).bin, 'commutativity violated')
    require(s.bin == a and t.bin == b, 'operands modified')
    return {'nt': n >= 2 and not (len(set(a)) == 1 and len(set(b)) == 1), 'labels': [lenbucket(n)]}


# ------------------------------------------------------------------------------------------- shifts

@st.composite
def shift_case(draw, tier):
    a = draw(bits_st(max_len=300 if tier == 'quick' else 2100, long=True))
    n = len(a)
    k = draw(st.sampled_from([-3, -1, 0, 1, 2, 7, 8, 9, 63, 64, 65, max(n - 1, 0), n, n + 1, n + 70, 2 ** 31, 2 ** 63 - 1, 2 ** 63, 2 ** 64, 2 ** 100, -2 ** 63 - 1]) | st.integers(-3, n + 70))
    return {'a': a, 'k': k, 'op': draw(st.sampled_from(['<<', '>>'])), 'cls': draw(cls_st), 'inplace': draw(st.booleans()),
            'route': [draw(st.sampled_from(MEM_ROUTES)), draw(st.integers(0, 40))]}


def run_shift(case):
    a, k, op = case['a'], case['k'], case['op']
    cls = case['cls']
    inplace = case['inplace'] and cls in MUTABLE
    s = build_route(cls, a, *case['route'])

    def do():
        nonlocal s
        if inplace:
            before = s
            if op == '<<':
                s <<= k
            else:
                s >>= k
            require(s is before, 'in-place shift rebound the name to another object')
            return s
        return (s << k) if op == '<<' else (s >> k)
    park = None
    if not inplace and hasattr(s, 'pos') and a:
        s.pos = park = (len(a) + 1) // 2
    res = attempt(do)
    if park is not None:
        require(s.pos == park, 'a non-in-place shift moved the read position of its stream operand', before=park, after=s.pos)
    if k < 0 or a == '':
        require(is_raised(res, ValueError), 'shift by a negative amount / of an empty bitstring must raise ValueError', got=res, k=k, n=len(a))
        require(s.bin == a, 'failed shift modified the operand')
        return {'nt': a != '', 'labels': ['error', op]}
    require(not is_raised(res), 'shift raised', got=res, k=k)
    exp = model_shift(op, a, k)
    require(res.bin == exp and len(res) == len(a), 'shift differs from the integer model', got=res.bin[:80], expected=exp[:80], k=k, n=len(a))
    if not inplace:
        require(s.bin == a, 'non-in-place shift modified the operand')
    return {'nt': 0 < k < len(a), 'labels': [op, 'inplace' if inplace else 'pure', 'k>=n' if k >= len(a) else 'k<n', cls]}


# ------------------------------------------------------------------------------------------- in-place logic

@st.composite
def inplace_case(draw, tier):
    a, b = draw(pair_st(300))
    side = draw(st.sampled_from(['obj', 'obj', 'promo', 'self']))
    case = {'op': draw(st.sampled_from('&|^')), 'a': a, 'b': b, 'cls': draw(mcls_st), 'side': side}
    if side == 'obj':
        case['other'] = draw(cls_st)
    elif side == 'promo':
        kinds = [k for k in PROMO_KINDS if k not in CLASSES and promo_ok(k, b)]
        case['other'] = draw(st.sampled_from(kinds))
    else:
        case['b'] = a
    return case


def run_inplace(case):
    op, a, b = case['op'], case['a'], case['b']
    x = mk(case['cls'], a)
    alias = x
    if case['side'] == 'self':
        y = x
    elif case['side'] == 'obj':
        y = mk(case['other'], b)
    else:
        y = make_promotable(case['other'], b)
    res = attempt(iapply, op, x, y)
    if len(a) != len(b):
        require(is_raised(res, ValueError), 'in-place op with unequal lengths must raise ValueError', got=res)
        require(alias.bin == a, 'failed in-place op modified the object', got=alias.bin[:80])
        return {'nt': bool(a and b), 'labels': ['unequal', op]}
    require(not is_raised(res), 'in-place op raised', got=res)
    exp = model_logic(op, a, b)
    require(res is alias, 'in-place op returned a different object')
    require(alias.bin == exp and len(alias) == len(a), 'in-place op differs from the integer model', got=alias.bin[:80], expected=exp[:80])
    if case['side'] == 'obj':
        require(y.bin == b, 'in-place op modified its right operand')
    return {'nt': len(a) >= 2 and not (len(set(a)) == 1 and len(set(b)) == 1), 'labels': [op, case['side'], case['cls']]}


# ------------------------------------------------------------------------------------------- small world

def small_world(tier):
    maxlen = 4 if tier == 'quick' else 6
    for n in range(0, maxlen + 1):
        for v in range(1 << n):
            yield {'a': fmt(v, n)}


def run_small(case):
    bs = bitstring_module()
    a = case['a']
    n = len(a)
    for ci, cls in enumerate(CLASSES):
        s = mk(cls, a)
        for w in range(1 << n):
            b = fmt(w, n)
            t = mk(CLASSES[(ci + w) % 4], b)
            for op in '&|^':
                r = apply(op, s, t)
                require(r.bin == model_logic(op, a, b), 'logic op differs', a=a, b=b, op=op, got=r.bin)
        if n:
            require((~s).bin == fmt(~int(a, 2) & ((1 << n) - 1), n), '~ differs', a=a)
        for k in range(-1, n + 3):
            for op in ('<<', '>>'):
                r = attempt((lambda: s << k) if op == '<<' else (lambda: s >> k))
                if k < 0 or n == 0:
                    require(is_raised(r, ValueError), 'shift error expected', a=a, k=k, got=r)
                else:
                    require(r.bin == model_shift(op, a, k), 'shift differs', a=a, k=k, op=op, got=r)
        for m in ([n - 1, n + 1] if n else [1]):
            if m >= 0:
                r = attempt(lambda: s & mk('Bits', '0' * m))
                require(is_raised(r, ValueError), 'unequal lengths must raise ValueError', a=a, m=m, got=r)
        require(s.bin == a, 'operand modified')
    return {'nt': n >= 2, 'labels': ['n=%d' % n]}


SUBCHECKS = [
    Sub('C16.logic_int_model', run_logic, strategy=logic_case, ambient=('bytealigned', 'lsb0'), examples={'quick': 16000, 'thorough': 250000}),
    Sub('C16.laws', run_laws, strategy=laws_case, ambient=('bytealigned', 'lsb0'), examples={'quick': 4000, 'thorough': 60000}),
    Sub('C16.shift', run_shift, strategy=shift_case, ambient=('bytealigned', 'lsb0'), examples={'quick': 10000, 'thorough': 150000}),
    Sub('C16.inplace', run_inplace, strategy=inplace_case, ambient=('bytealigned', 'lsb0'), examples={'quick': 8000, 'thorough': 100000}),
    Sub('C16.small_world', run_small, enum=small_world,
        enum_exhaustive_note='all pairs of contents of equal length <= 4 (quick) / 6 (thorough) x &,|,^ x 4 classes; ~; all shift counts -1..n+2'),
]
