"""C06 - stream reads consume exactly what they return; the position is always valid.

A case is (stream class, initial bits, initial pos, list of steps); a (bits, pos) reference machine is stepped in lock-step."""
import copy
import operator

from hypothesis import strategies as st

from vf.engine import Sub, require, bitstring_module, Violation
from vf.common import bits_st, bits_of_len, mk, attempt, is_raised, STREAMS, CLASSES, norm_window, cls_of
from vf import codecs
from vf.props import c03, c10
from vf.props.c07 import all_matches

RULE = ("case = (ConstBitStream|BitStream, content, initial pos, 1..N steps); steps: read/peek (int counts incl. 0/negative/too large; every token "
        "kind: fixed, single-allowed-length, exp-Golomb, length-less, pad, bytes), readlist/peeklist (ints, strings, Dtype objects, one length-less "
        "item), readto, pos/bitpos/bytepos assignment, bytealign, find/rfind, non-moving calls, every BitStream mutator (C03's op table) and property "
        "assignment, derivations. After every step: returned value and pos equal the (bits,pos) machine and 0 <= pos <= len. Non-trivial = history with "
        ">= 1 successful read from pos > 0 and (>= 1 failing read or >= 1 length-changing mutation); distinct = SHA-1 of the case.")
ASSUMPTIONS = ["a length-less token whose remainder is not a legal length (incl. 0 bits for integer types): any documented exception, pos unchanged",
               "operations for which the statement documents no move (*=, property assignment, shifts...) may leave pos as it was if still <= len, or reset it to 0",
               "empty insert/overwrite: pos unchanged or set to the given position", "8-bit/6-bit/4-bit float tokens: only position and error behaviour are judged here (values are C11's)"]

TRUNC = c10.TRUNC
GOLOMB = c10.KINDS
SINGLE_LEN = {'bool': 1, 'bfloat': 16, 'bfloatle': 16, 'p3binary': 8, 'p4binary': 8, 'e4m3mxfp': 8, 'e5m2mxfp': 8, 'e3m2mxfp': 6, 'e2m3mxfp': 6, 'e2m1mxfp': 4,
              'e8m0mxfp': 8, 'mxint': 8}
VALUE_UNCHECKED = {'p3binary', 'p4binary', 'e4m3mxfp', 'e5m2mxfp', 'e3m2mxfp', 'e2m3mxfp', 'e2m1mxfp', 'e8m0mxfp', 'mxint'}
FIXED = ['uint', 'int', 'hex', 'bin', 'oct', 'bits', 'bytes', 'uintbe', 'intle', 'uintle', 'intbe', 'float', 'floatle', 'pad', 'u', 'i', 'h', 'b', 'o', 'f', 'uintne']
ANYVAL = object()


def render_token(t):
    name, ln, colon = t['name'], t.get('len'), t.get('colon', True)
    if ln is None:
        return name
    return f'{name}:{ln}' if colon else f'{name}{ln}'


def token_model(t, bits, pos):
    """-> ('ok', value, newpos) | ('readerror',) | ('error',)   [error = any documented exception]"""
    name, ln = t['name'], t.get('len')
    n = len(bits)
    rem = n - pos
    if name in GOLOMB:
        if ln is not None:
            return ('error',)
        r = c10.dec(name, bits, pos)
        return ('readerror',) if r == TRUNC else ('ok', r[0], r[1])
    if name in SINGLE_LEN:
        L = SINGLE_LEN[name]
        if ln is not None and ln != L:
            return ('error',)
        if L > rem:
            return ('readerror',)
        if name in VALUE_UNCHECKED:
            return ('ok', ANYVAL, pos + L)
        return ('ok', codecs.decode(name, bits[pos:pos + L]), pos + L)
    unit = 8 if name == 'bytes' else 1
    if ln is None:
        L = rem
        if name == 'pad':
            return ('ok', None, n)
        if L % unit or not codecs.valid_length(name, L):
            return ('error',)
        return ('ok', codecs.decode(name, bits[pos:]), n)
    L = ln * unit
    if name == 'pad':
        return ('readerror',) if L > rem else ('ok', None, pos + L)
    if not codecs.valid_length(name, L):
        return ('error',)
    if L > rem:
        return ('readerror',)
    return ('ok', codecs.decode(name, bits[pos:pos + L]), pos + L)


def value_eq(got, exp):
    if exp is ANYVAL:
        return True
    if exp is None:
        return got is None
    if hasattr(got, 'bin'):
        return isinstance(exp, str) and got.bin == exp
    return codecs.same_value(got, exp)


class Machine:
    def __init__(self, cls, bits, pos):
        self.bs = bitstring_module()
        self.cls = cls
        self.s = mk(cls, bits, pos)
        self.bits = bits
        self.pos = pos
        self.opt_ba = False
        self.good_reads_from_nonzero = 0
        self.failed_reads = 0
        self.len_changes = 0
        self.labels = []

    def invariant(self, what):
        s = self.s
        p = s.pos
        require(0 <= p <= len(s), f'pos outside [0, len] after {what}', pos=p, len=len(s))
        require(s.bin == self.bits, f'content differs from the model after {what}', got=s.bin[:80], expected=self.bits[:80])
        require(p == self.pos, f'pos differs from the reference machine after {what}', got=p, expected=self.pos, len=len(s))

    def expect_error(self, res, kind, what):
        bs = self.bs
        if kind == 'readerror':
            require(is_raised(res, bs.ReadError), f'{what}: not enough bits / truncated code must raise ReadError', got=res, pos=self.pos, len=len(self.bits))
            self.failed_reads += 1
        else:
            require(is_raised(res, ValueError, IndexError, TypeError, bs.Error), f'{what}: expected a documented exception', got=res, pos=self.pos, len=len(self.bits))

    # ---------------------------------------------------------------- steps
    def step(self, st_):
        op = st_[0]
        getattr(self, 'do_' + op)(*st_[1:])
        self.invariant(str(st_)[:150])

    def do_read_int(self, n, peek):
        s = self.s
        res = attempt(s.peek if peek else s.read, n)
        rem = len(self.bits) - self.pos
        what = f"{'peek' if peek else 'read'}({n})"
        if n < 0:
            self.expect_error(res, 'error', what)
        elif n > rem:
            self.expect_error(res, 'readerror', what)
        else:
            require(not is_raised(res), f'{what} raised', got=res, pos=self.pos, len=len(self.bits))
            require(res.bin == self.bits[self.pos:self.pos + n], f'{what} returned the wrong bits', got=res.bin[:60], expected=self.bits[self.pos:self.pos + n][:60])
            require(type(res) is type(s) and res.pos == 0, 'bits returned by read must be a new stream at pos 0', cls=type(res).__name__, pos=getattr(res, 'pos', None))
            if not peek:
                if self.pos > 0 and n > 0:
                    self.good_reads_from_nonzero += 1
                self.pos += n

    def do_read_tok(self, tok, how):
        s = self.s
        text = render_token(tok)
        peek = how in ('peek', 'peek_dtype')
        scale = None
        if how in ('read_dtype', 'peek_dtype'):
            try:
                arg = self.bs.Dtype(tok['name'], tok.get('len')) if tok.get('len') is not None else self.bs.Dtype(tok['name'])
                if tok.get('scale') is not None and arg.return_type in (int, float) and tok['name'] != 'bool':
                    # a scaled Dtype object: the interpretation is the plain one times the scale, whether or not the Dtype has a length
                    arg = self.bs.Dtype(tok['name'], tok.get('len'), scale=tok['scale']) if tok.get('len') is not None else self.bs.Dtype(tok['name'], scale=tok['scale'])
                    scale = tok['scale']
            except Exception:
                arg = text
        else:
            arg = text
        res = attempt(s.peek if peek else s.read, arg)
        m = token_model(tok, self.bits, self.pos)
        if scale is not None and m[0] == 'ok' and isinstance(m[1], (int, float)) and not isinstance(m[1], bool):
            try:
                m = ('ok', m[1] * scale) + tuple(m[2:])
            except OverflowError:
                # a > 1024-bit integer times a float scale: no float can hold it. Outside the property's domain; only the position rule is kept.
                require(is_raised(res, OverflowError) or not is_raised(res), f'{how}: unexpected exception for an integer too large for a float scale', got=res)
                if is_raised(res):
                    require(s.pos == self.pos, 'a failed read moved pos', pos=s.pos, expected=self.pos)
                    return
                m = ('ok', ANYVAL) + tuple(m[2:])
        what = f"{how}({text!r})"
        if m[0] == 'ok':
            require(not is_raised(res), f'{what} raised', got=res, pos=self.pos, len=len(self.bits))
            require(value_eq(res, m[1]), f'{what} returned the wrong value', got=res, expected=m[1] if m[1] is not ANYVAL else 'any', pos=self.pos)
            if hasattr(res, 'pos'):
                require(res.pos == 0, 'returned stream does not start at 0')
            if not peek:
                if self.pos > 0 and m[2] > self.pos:
                    self.good_reads_from_nonzero += 1
                self.pos = m[2]
        else:
            self.expect_error(res, m[0], what)
        self.labels.append(tok['name'] + (':' + m[0]))

    def do_readlist(self, items, form, peek):
        s = self.s
        bs = self.bs
        toks = []
        fmt = []
        kw = {}
        for it in items:
            if it[0] == 'int':
                toks.append({'name': 'bits', 'len': it[1]} if it[1] >= 0 else {'neg': it[1]})
                fmt.append(it[1])
            elif it[0] == 'dtype':
                toks.append(it[1])
                try:
                    fmt.append(bs.Dtype(it[1]['name'], it[1].get('len')) if it[1].get('len') is not None else bs.Dtype(it[1]['name']))
                except Exception:
                    fmt.append(render_token(it[1]))
            elif it[0] == 'kw':
                toks.append(it[1])
                key = f'k{len(kw)}'
                kw[key] = it[1]['len']
                fmt.append(f"{it[1]['name']}:{key}")
            else:
                toks.append(it[1])
                fmt.append(render_token(it[1]))
        if form == 'joined' and all(isinstance(f, (str, int)) and (not isinstance(f, int) or f >= 0) for f in fmt):
            fmt = ', '.join(str(f) for f in fmt)
        res = attempt((s.peeklist if peek else s.readlist), fmt, **kw)
        # model
        stretchy = [i for i, t in enumerate(toks) if 'neg' not in t and t.get('len') is None and t['name'] not in GOLOMB and t['name'] not in SINGLE_LEN]
        what = f"{'peeklist' if peek else 'readlist'}({fmt!r})"
        outcome = None
        vals = []
        p = self.pos
        def static_invalid(t):
            if 'neg' in t:
                return True
            nm, ln = t['name'], t.get('len')
            if nm in GOLOMB:
                return ln is not None
            if nm in SINGLE_LEN:
                return ln is not None and ln != SINGLE_LEN[nm]
            if ln is None or nm == 'pad':
                return False
            return not codecs.valid_length(nm, ln * (8 if nm == 'bytes' else 1))
        if any(static_invalid(t) for t in toks) or len(stretchy) > 1:
            outcome = 'error'   # the whole format is parsed before anything is read
        elif stretchy and any(t['name'] in GOLOMB for t in toks[stretchy[0] + 1:]):
            outcome = 'error'
        else:
            after = 0
            if stretchy:
                for t in toks[stretchy[0] + 1:]:
                    L = SINGLE_LEN.get(t['name'])
                    if L is None:
                        L = t['len'] * (8 if t['name'] == 'bytes' else 1)
                    after += L
            for i, t in enumerate(toks):
                if stretchy and i == stretchy[0]:
                    L = max(len(self.bits) - p - after, 0)
                    unit = 8 if t['name'] == 'bytes' else 1
                    if t['name'] == 'pad':
                        m = ('ok', None, p + L)
                    elif L % unit or not codecs.valid_length(t['name'], L):
                        m = ('error',)
                    else:
                        m = ('ok', codecs.decode(t['name'], self.bits[p:p + L]), p + L)
                else:
                    m = token_model(t, self.bits, p)
                if m[0] != 'ok':
                    outcome = m[0]
                    break
                if m[1] is not None or t['name'] != 'pad':
                    vals.append(m[1])
                p = m[2]
        if outcome is None:
            require(not is_raised(res), f'{what} raised', got=res, pos=self.pos, len=len(self.bits))
            require(len(res) == len(vals) and all(value_eq(g, e) for g, e in zip(res, vals)), f'{what} returned the wrong values', got=res, expected=[v if v is not ANYVAL else 'any' for v in vals])
            if not peek:
                if self.pos > 0 and p > self.pos:
                    self.good_reads_from_nonzero += 1
                self.pos = p
        else:
            self.expect_error(res, outcome, what)

    def do_readto(self, pat, ba):
        s = self.s
        res = attempt(s.readto, mk('Bits', pat), ba) if ba is not None else attempt(s.readto, mk('Bits', pat))
        if pat == '':
            self.expect_error(res, 'error', 'readto(empty)')
            return
        m = all_matches(self.bits, pat, self.pos, len(self.bits), self.opt_ba if ba is None else bool(ba))
        if not m:
            self.expect_error(res, 'readerror', f'readto({pat!r})')
            return
        end = m[0] + len(pat)
        require(not is_raised(res), 'readto raised although the pattern occurs', got=res, pos=self.pos)
        require(res.bin == self.bits[self.pos:end], 'readto returned the wrong bits', got=res.bin[:60], expected=self.bits[self.pos:end][:60])
        require(res.pos == 0 and type(res) is type(s), 'readto result must be a new stream at 0')
        if self.pos > 0:
            self.good_reads_from_nonzero += 1
        self.pos = end

    def do_setpos(self, attr, v):
        s = self.s
        res = attempt(setattr, s, attr, v)
        t = v * 8 if attr == 'bytepos' else v
        if 0 <= t <= len(self.bits):
            require(not is_raised(res), f'{attr} = {v} raised', got=res, len=len(self.bits))
            self.pos = t
        else:
            require(is_raised(res, ValueError), f'{attr} = {v} (outside the data) must raise ValueError', got=res, len=len(self.bits))

    def do_getpos(self):
        s = self.s
        require(s.pos == self.pos and s.bitpos == self.pos, 'pos/bitpos getter differs')
        r = attempt(lambda: s.bytepos)
        if self.pos % 8:
            require(is_raised(r, self.bs.ByteAlignError), 'bytepos of an unaligned position must raise ByteAlignError', got=r)
        else:
            require(r == self.pos // 8, 'bytepos differs', got=r)

    def do_bytealign(self):
        s = self.s
        r = attempt(s.bytealign)
        t = (self.pos + 7) // 8 * 8
        if t > len(self.bits):
            require(is_raised(r, ValueError), 'bytealign past the end must raise ValueError', got=r)
        else:
            require(r == t - self.pos, 'bytealign returned the wrong skip count', got=r, expected=t - self.pos)
            self.pos = t

    def do_find(self, which, pat, win, ba):
        s = self.s
        n = len(self.bits)
        a, b = c03.rwin(win, n)
        res = attempt(getattr(s, which), mk('Bits', pat), a, b, ba)
        w = norm_window(a, b, n)
        if pat == '' or w is None:
            require(is_raised(res, ValueError), f'{which} with an empty pattern / invalid range must raise ValueError', got=res)
            return
        m = all_matches(self.bits, pat, w[0], w[1], self.opt_ba if ba is None else bool(ba))
        exp = () if not m else ((m[0],) if which == 'find' else (m[-1],))
        require(res == exp, f'{which} differs from brute force', got=res, expected=exp)
        if m:
            self.pos = exp[0]

    def do_nonmoving(self, which, pat, a):
        s = self.s
        bs = self.bs
        ref = bs.Bits(bin=self.bits)
        p = mk('Bits', pat)
        n = len(self.bits)

        def both(f):
            r1, r2 = attempt(f, s), attempt(f, ref)
            if is_raised(r1) or is_raised(r2):
                require(is_raised(r1) and is_raised(r2) and type(r1.exc) is type(r2.exc), f'{which}: stream and plain Bits disagree', stream=r1, plain=r2, pos=self.pos)
            else:
                require(r1 == r2, f'{which}: result depends on pos', stream=r1, plain=r2, pos=self.pos)
        if which == 'findall':
            both(lambda o: list(o.findall(p)) if pat else [])
        elif which == 'startswith':
            both(lambda o: o.startswith(p))
        elif which == 'endswith':
            both(lambda o: o.endswith(p))
        elif which == 'count':
            both(lambda o: o.count(a % 2))
        elif which == 'contains':
            both(lambda o: (p in o) if pat else None)
        elif which == 'unpack':
            both(lambda o: [x.bin if hasattr(x, 'bin') else x for x in o.unpack('bin')])
        elif which == 'eq':
            require(s == ref and not (s != ref), '== depends on pos')
            other = mk(self.cls, self.bits, (a % (n + 1)))
            require(s == other and other == s, '== between streams depends on pos')
        elif which == 'hash':
            if self.cls == 'ConstBitStream':
                require(hash(s) == hash(ref), 'hash depends on pos or class')
        elif which == 'tobytes':
            both(lambda o: (o.tobytes(), o.bin, len(o), o.hex if n % 4 == 0 else None))
        elif which == 'cut':
            items = list(s.cut(max(1, a % 9)))
            require(all(x.pos == 0 for x in items), 'cut items must start at pos 0')
            require(''.join(x.bin for x in items) == self.bits, 'cut depends on pos')
        elif which == 'split':
            if pat:
                items = list(s.split(p))
                require(all(x.pos == 0 for x in items), 'split items must start at pos 0')
                require([x.bin for x in items] == [x.bin for x in ref.split(p)], 'split depends on pos')
        elif which == 'getitem':
            both(lambda o: o[a % n] if n else None)
        elif which == 'all_any':
            both(lambda o: (o.all(1), o.any(1), o.all(0), o.any(0)))
        elif which == 'uint':
            both(lambda o: o.uint if n else None)
        elif which == 'str':
            require(str(s) == str(ref), 'str depends on pos')

    def do_derive(self, which, a, b):
        s = self.s
        bs = self.bs
        n = len(self.bits)
        one = mk('Bits', '1' * n)
        if which == 'copycopy':
            d = copy.copy(s)
        elif which == 'copy':
            d = s.copy()
        elif which == 'slice_all':
            d = s[:]
        elif which == 'slice':
            d = s[a % (n + 1):b % (n + 2)]
        elif which == 'slice_step':
            d = s[::-1]
        elif which == 'add':
            d = s + mk(CLASSES[a % 4], '01')
        elif which == 'add_empty':
            d = s + mk('Bits', '')
        elif which == 'radd':
            d = '0b1' + s
        elif which == 'mul':
            d = s * (a % 3)
        elif which == 'invert':
            d = ~s if n else s[:]
        elif which == 'and':
            d = s & one
        elif which == 'and_self':
            d = s & s
        elif which == 'or':
            d = s | one
        elif which == 'xor':
            d = s ^ one
        elif which == 'lshift':
            d = (s << (a % 3)) if n else s[:]
        elif which == 'rshift':
            d = (s >> (a % 3)) if n else s[:]
        elif which == 'ctor':
            d = cls_of(self.cls)(s)
        elif which == 'bits_prop':
            d = s.bits
        elif which == 'join':
            d = s.join([mk('Bits', '1'), mk('Bits', '0')])
        elif which == 'deepcopy':
            d = copy.deepcopy(s)
        else:
            raise AssertionError(which)
        if which in ('copycopy', 'copy', 'deepcopy', 'and_self', 'ctor') and d is s:
            return   # an immutable object may be its own copy
        if hasattr(d, 'pos'):
            require(d.pos == 0, f'new stream returned by {which} does not start at pos 0', pos=d.pos, source_pos=self.pos)
            require(0 <= d.pos <= len(d), 'derived stream has an invalid pos')

    # -- BitStream mutators (content is C03's business; here the position rule)
    def do_peek_edit_read(self, tok, how1, op, how2):
        self.do_read_tok(tok, how1)
        self.invariant('peek before an in-place edit')
        self.do_mutate(op)
        self.invariant('in-place edit after a peek')
        self.do_read_tok(tok, how2)

    def do_mutate(self, op):
        s = self.s
        before_len = len(self.bits)
        before_pos = self.pos
        if op['op'] == 'replace' and op.get('ba') is None:
            op = dict(op, ba=False)
        r, objs = c03.resolve(op, self.bits)
        res = attempt(c03.call_impl, s, op, r, objs)
        if is_raised(res) and isinstance(res.exc, Violation):
            raise res.exc
        new = s.bin
        name = op['op']
        changed_len = len(new) != before_len
        if changed_len:
            self.len_changes += 1
        self.bits = new
        got = s.pos
        require(0 <= got <= len(new), f'pos outside [0, len] after {name}', pos=got, len=len(new), before_pos=before_pos, before_len=before_len, op=op)
        if is_raised(res):
            # a raising call: only the invariant (and the content being a valid outcome, which is C03's)
            self.pos = got
            return
        if name in ('append', 'iadd'):
            allowed = {len(new)}
        elif name in ('prepend', 'clear'):
            allowed = {0}
        elif name in ('del_int', 'del_slice', 'set_int_int', 'set_int_bits', 'set_slice_bits', 'set_slice_int', 'replace'):
            allowed = {0} if changed_len else {before_pos}
        elif name in ('insert', 'overwrite'):
            v = r['v']
            p = r['pos']
            pp = p + before_len if p < 0 else p
            allowed = {pp + len(v)} if v else {before_pos, pp}
        elif name in ('reverse', 'rol', 'ror', 'set', 'invert', 'byteswap', 'ilshift', 'irshift', 'iand', 'ior', 'ixor'):
            allowed = {before_pos}
        else:   # imul and anything the statement does not mention
            allowed = {0} | ({before_pos} if before_pos <= len(new) else set())
        require(got in allowed, f'pos after {name} is not what the documentation says', got=got, allowed=sorted(allowed), before_pos=before_pos,
                before_len=before_len, after_len=len(new), op=op)
        self.pos = got

    def do_stream_write(self, which, v):
        """insert/overwrite without a position: uses and advances the current pos"""
        s = self.s
        before = self.bits
        p = self.pos
        res = attempt(getattr(s, which), mk('Bits', v))
        require(not is_raised(res), f'{which}(bs) at the current pos raised', got=res)
        exp = before[:p] + v + (before[p:] if which == 'insert' else before[p + len(v):])
        self.bits = exp
        if len(exp) != len(before):
            self.len_changes += 1
        self.pos = p + len(v)

    def do_setprop(self, name, n, raw):
        s = self.s
        before_pos = self.pos
        if name in ('uint', 'u'):
            val = raw % (1 << n)
        elif name in ('int', 'i'):
            val = raw % (1 << n) - (1 << (n - 1))
        elif name in ('bin', 'b'):
            val = format(raw % (1 << n), f'0{n}b')
        elif name in ('hex', 'h'):
            n = max(4, n // 4 * 4)
            val = format(raw % (1 << n), f'0{n // 4}x')
        elif name == 'bytes':
            n = max(8, n // 8 * 8)
            val = (raw % (1 << n)).to_bytes(n // 8, 'big')
        elif name == 'bool':
            n = 1
            val = bool(raw % 2)
        else:
            n = 32
            val = 1.5
            name = 'float'
        attr = name if (name in ('bin', 'hex', 'bytes', 'bool', 'b', 'h')) else f'{name}{n}'
        res = attempt(setattr, s, attr, val)
        require(not is_raised(res), f's.{attr} = {val!r} raised', got=res)
        new = s.bin
        require(len(new) == n, 'property assignment produced the wrong length', got=len(new), expected=n)
        if len(new) != len(self.bits):
            self.len_changes += 1
        self.bits = new
        got = s.pos
        allowed = {0} | ({before_pos} if before_pos <= len(new) else set())
        require(got in allowed, f'pos after property assignment s.{attr} = ... is invalid or unexpected', got=got, len=len(new), before_pos=before_pos)
        self.pos = got


# ---------------------------------------------------------------------------------------------
# generators

raw = st.integers(0, 10 ** 6)


@st.composite
def token_st(draw, allow_stretchy=True):
    k = draw(st.integers(0, 11))
    if k <= 1:
        return {'name': draw(st.sampled_from(GOLOMB))}
    if k == 2:
        nm = draw(st.sampled_from(sorted(SINGLE_LEN)))
        t = {'name': nm}
        if draw(st.integers(0, 4)) == 0:
            t['len'] = draw(st.sampled_from([SINGLE_LEN[nm], SINGLE_LEN[nm], 2, 0]))
            t['colon'] = draw(st.booleans())
        return t
    name = draw(st.sampled_from(FIXED))
    if k == 3 and allow_stretchy:
        return {'name': name}
    c = codecs.canon(name) if name != 'pad' else 'pad'
    if c in ('float', 'floatle'):
        ln = draw(st.sampled_from([16, 32, 64, 64, 32, 8]))
    elif c in ('uintbe', 'intbe', 'uintle', 'intle'):
        ln = draw(st.sampled_from([8, 16, 24, 32, 40, 64, 12]))
    elif c == 'bytes':
        ln = draw(st.integers(0, 5))
    elif c == 'hex':
        ln = draw(st.sampled_from([0, 4, 8, 12, 16, 32, 6]))
    elif c == 'oct':
        ln = draw(st.sampled_from([0, 3, 6, 9, 12, 30, 4]))
    else:
        ln = draw(st.sampled_from([0, 1, 2, 3, 7, 8, 9, 16, 31, 32, 33, 64, 65]) | st.integers(0, 70))
    return {'name': name, 'len': ln, 'colon': draw(st.booleans())}


@st.composite
def item_st(draw, allow_stretchy):
    k = draw(st.integers(0, 9))
    if k <= 1:
        return ['int', draw(st.sampled_from([0, 1, 2, 7, 8, 9, 16, 33, -1, -8]) | st.integers(0, 40))]
    t = draw(token_st(allow_stretchy=allow_stretchy))
    if k == 2 and t['name'] not in GOLOMB:
        return ['dtype', t]
    if k == 3 and t.get('len') is not None:
        return ['kw', t]
    return ['tok', t]


@st.composite
def step_st(draw, mutable, focus=None):
    kinds = ['read_int', 'read_tok', 'read_tok', 'readlist', 'readto', 'setpos', 'getpos', 'bytealign', 'find', 'nonmoving', 'derive']
    if mutable:
        kinds += ['mutate', 'mutate', 'stream_write', 'setprop', 'peek_edit_read']
    if focus:
        kinds = focus + (['setpos'] if 'setpos' not in focus else [])
    k = draw(st.sampled_from(kinds))
    if k == 'read_int':
        return [k, draw(st.sampled_from([0, 1, 2, 7, 8, 9, 16, -1, 1000]) | st.integers(-2, 70)), draw(st.sampled_from([False, False, True]))]
    if k == 'read_tok':
        tok = draw(token_st())
        how = draw(st.sampled_from(['read', 'read', 'peek', 'read_dtype', 'peek_dtype']))
        if how.endswith('_dtype') and draw(st.integers(0, 2)) == 0:
            tok = dict(tok, scale=draw(st.sampled_from([2, 4, 0.5, 3, -1, 2.0])))
        return [k, tok, how]
    if k == 'readlist':
        n = draw(st.integers(1, 4))
        items = []
        stretchy_used = False
        for _ in range(n):
            it = draw(item_st(allow_stretchy=not stretchy_used or draw(st.integers(0, 9)) == 0))
            if it[0] != 'int' and it[1].get('len') is None and it[1]['name'] not in GOLOMB and it[1]['name'] not in SINGLE_LEN:
                stretchy_used = True
            items.append(it)
        return [k, items, draw(st.sampled_from(['list', 'joined'])), draw(st.sampled_from([False, False, True]))]
    if k == 'readto':
        return [k, draw(bits_st(max_len=9)), draw(st.sampled_from([None, None, False, True]))]
    if k == 'setpos':
        return [k, draw(st.sampled_from(['pos', 'pos', 'bitpos', 'bytepos'])), draw(st.sampled_from([0, 1, 3, 7, 8, 9, 16, -1, 10 ** 6]) | st.integers(-1, 80))]
    if k in ('getpos', 'bytealign'):
        return [k]
    if k == 'find':
        return [k, draw(st.sampled_from(['find', 'rfind'])), draw(bits_st(max_len=6)), draw(c03.win_spec()) if draw(st.booleans()) else ['p', ['n'], ['n']],
                draw(st.sampled_from([None, None, False, True]))]
    if k == 'nonmoving':
        return [k, draw(st.sampled_from(['findall', 'startswith', 'endswith', 'count', 'contains', 'unpack', 'eq', 'hash', 'tobytes', 'cut', 'split', 'getitem',
                                         'all_any', 'uint', 'str'])), draw(bits_st(max_len=5)), draw(raw)]
    if k == 'derive':
        return [k, draw(st.sampled_from(['copycopy', 'copy', 'slice_all', 'slice', 'slice_step', 'add', 'add_empty', 'radd', 'mul', 'invert', 'and', 'and_self', 'or',
                                         'xor', 'lshift', 'rshift', 'ctor', 'bits_prop', 'join'])), draw(raw), draw(raw)]
    if k == 'peek_edit_read':
        # peek a token, edit the data in place with a mutator that keeps the length, read the same token: the read sees the new bits
        tok = draw(token_st())
        op = draw(c03.op_st(['invert', 'set', 'reverse', 'rol', 'ror', 'byteswap', 'ixor', 'iand', 'ior', 'set_int_int', 'set_slice_int', 'ilshift', 'irshift']))
        return [k, tok, draw(st.sampled_from(['peek', 'peek', 'peek_dtype'])), op, draw(st.sampled_from(['read', 'read', 'read_dtype', 'peek']))]
    if k == 'mutate':
        names = c03.ALL_OPS + ['insert', 'overwrite', 'append', 'prepend', 'del_slice', 'set_slice_bits', 'replace']
        op = draw(c03.op_st(names))
        if op['op'] == 'imul' and op['n'] > 3:
            op['n'] = 2
        return [k, op]
    if k == 'stream_write':
        return [k, draw(st.sampled_from(['insert', 'overwrite'])), draw(bits_st(max_len=9))]
    if k == 'setprop':
        return [k, draw(st.sampled_from(['uint', 'int', 'bin', 'hex', 'bytes', 'bool', 'float', 'u', 'i', 'b', 'h'])), draw(st.integers(1, 40)), draw(raw)]
    raise AssertionError(k)


def case_st(focus=None, max_steps=25, classes=STREAMS):
    @st.composite
    def f(draw, tier):
        cls = draw(st.sampled_from(classes))
        k = draw(st.integers(0, 5))
        if k == 0:
            # a stream of exp-Golomb codes / mixed so that variable-length reads succeed
            parts = [c10.enc(draw(st.sampled_from(GOLOMB)), draw(st.integers(0, 40))) for _ in range(draw(st.integers(1, 8)))]
            bits = ''.join(parts)
        else:
            bits = draw(bits_st(max_len=200))
        pos = draw(st.integers(0, len(bits)))
        n = draw(st.integers(1, max_steps if tier == 'quick' else max_steps * 2))
        steps = draw(st.lists(step_st(cls == 'BitStream', focus), min_size=n, max_size=n))
        return {'cls': cls, 'bits': bits, 'pos': pos, 'steps': steps, 'opt_ba': draw(st.sampled_from([False, False, True]))}
    return f


def run(case):
    m = Machine(case['cls'], case['bits'], case['pos'])
    m.opt_ba = bool(case.get('opt_ba'))
    bitstring_module().options.bytealigned = m.opt_ba
    m.invariant('construction')
    for s in case['steps']:
        if len(m.bits) > c03.MAX_LEN:
            break
        m.step(s)
    nt = m.good_reads_from_nonzero >= 1 and (m.failed_reads >= 1 or m.len_changes >= 1)
    if len(case['steps']) <= 3:
        nt = m.good_reads_from_nonzero >= 1 or m.failed_reads >= 1 or m.len_changes >= 1 or case['pos'] > 0
    return {'nt': nt, 'labels': [s[0] for s in case['steps']][:8] + m.labels[:4] + [case['cls']]}


def selftest():
    assert token_model({'name': 'uint', 'len': 4}, '10110000', 1) == ('ok', 6, 5)
    assert token_model({'name': 'uint', 'len': 9}, '10110000', 1) == ('readerror',)
    assert token_model({'name': 'ue'}, '00100', 0) == ('ok', 3, 5)
    assert token_model({'name': 'bytes', 'len': 1}, '1011000011', 2) == ('ok', b'\xc3', 10)
    assert token_model({'name': 'hex'}, '10110000', 4) == ('ok', '0', 8)
    assert token_model({'name': 'bool'}, '1', 1) == ('readerror',)


SUBCHECKS = [
    Sub('C06.read_fixed_variable', run, strategy=case_st(['read_int', 'read_tok', 'read_tok'], max_steps=6), examples={'quick': 8000, 'thorough': 120000}, ambient=('bytealigned',)),
    Sub('C06.readlist_peek', run, strategy=case_st(['readlist', 'read_tok'], max_steps=5), examples={'quick': 8000, 'thorough': 120000}, ambient=('bytealigned',)),
    Sub('C06.readto_find_seek', run, strategy=case_st(['readto', 'find', 'setpos', 'getpos', 'bytealign', 'read_int'], max_steps=8), examples={'quick': 5000, 'thorough': 60000}),
    Sub('C06.mutators_move', run, strategy=case_st(['mutate', 'stream_write', 'setprop', 'read_int', 'setpos'], max_steps=8, classes=['BitStream']), examples={'quick': 8000, 'thorough': 120000}),
    Sub('C06.peek_edit_read', run, strategy=case_st(['peek_edit_read', 'peek_edit_read', 'read_tok', 'setpos'], max_steps=5, classes=['BitStream']), examples={'quick': 5000, 'thorough': 60000}),
    Sub('C06.derived_and_nonmoving', run, strategy=case_st(['derive', 'nonmoving', 'setpos', 'read_int'], max_steps=8), examples={'quick': 5000, 'thorough': 60000}),
    Sub('C06.history', run, strategy=case_st(None, max_steps=30), examples={'quick': 5000, 'thorough': 80000}),
]

for _s in SUBCHECKS:
    if _s.name in ['C06.history']:
        _s.fuzz = True
