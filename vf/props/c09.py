"""C09 - construction and parsing are pure: results never depend on call history.

A case is a history of calls (constructions from strings, pack/unpack/readlist with formats, Dtype creation, Array creation),
mutations of earlier results and option changes. Every call's result in the warm interpreter is compared with the same call
on COLD caches under the same option values, evaluated in a sidecar process (so the history under test is not disturbed).
The sidecar's cache discovery is cross-validated against fresh interpreters (a mismatch is a harness error)."""
import json
import math
import os
import subprocess
import sys

from hypothesis import strategies as st

from vf.engine import Sub, require, bitstring_module, HarnessError, HERE, REPO, Violation
from vf.common import attempt, is_raised, bits_st, CLASSES

RULE = ("case = history of 20..150 (quick) / up to 700 (thorough) steps: construct(class, string from a parametrised pool of token strings using every dtype incl. "
        "e4m3mxfp/e5m2mxfp/ue/se, multi-token, brackets), pack/unpack/readlist(format from a pool incl. keyword lengths with changing values), Dtype(token[, length][, "
        "scale in {None,1,1.0,2,0.5}]), Dtype(earlier Dtype, scale=...), pack/unpack/readlist with formats made of 1..3 fragments of a small pool given as one string or as a "
        "list of strings and with good / missing / non-numeric / surplus keyword sets (failing calls are part of the history), Array(dtype,...), mutate an earlier mutable result in place, bulk 'fill' of > 256 distinct keys (forces LRU evictions), set "
        "lsb0 / bytealigned / mxfp_overflow. Oracle: the same call on cold caches in a sidecar process. Non-trivial = a call whose key was seen before under a "
        "different option tuple, or after a mutation of its earlier result, or after >= 256 other distinct keys, or a format whose first item was used by an earlier different call, or any call after a Dtype-from-Dtype call; distinct = SHA-1 of the history.")
ASSUMPTIONS = ["the cold oracle clears every callable exposing cache_clear that is reachable from the package's modules and classes; this discovery is cross-validated "
               "against fresh interpreters at the start of every run (mismatch = harness error, exit 2)",
               "the cold answer is computed in a child forked, per call, from a process that has imported the package and evaluated nothing: it cannot depend on earlier calls through any kind of state",
               "results are compared as bits / value lists / exception class name / Dtype observables (name, length, bitlength, scale, build and parse of a probe)"]

OPT_NAMES = ['lsb0', 'bytealigned', 'mxfp_overflow']


def apply_options(opts):
    o = bitstring_module().options
    if o.lsb0 != opts['lsb0']:
        o.lsb0 = opts['lsb0']
    o.bytealigned = opts['bytealigned']
    o.mxfp_overflow = opts['mxfp_overflow']
    o.no_color = False       # same as the warm side (engine.reset_options); the environment's NO_COLOR must not leak into the comparison


def current_options():
    o = bitstring_module().options
    return {'lsb0': bool(o.lsb0), 'bytealigned': bool(o.bytealigned), 'mxfp_overflow': o.mxfp_overflow}


def nv(v):
    bs = bitstring_module()
    if isinstance(v, bs.Bits):
        return ['bits', v.bin]
    if isinstance(v, float):
        return ['f', 'nan' if math.isnan(v) else v.hex()]
    if isinstance(v, bytes):
        return ['bytes', v.hex()]
    if isinstance(v, bool):
        return ['b', v]
    if isinstance(v, (int, str)) or v is None:
        return [type(v).__name__, v]
    return ['repr', repr(v)]


def evaluate(call, keep=None):
    """Evaluate a JSON call spec against the library; returns a JSON-able result. `keep` (list) receives the created object."""
    bs = bitstring_module()
    kind = call[0]
    try:
        if kind == 'construct':
            o = getattr(bs, call[1])(call[2])
            if keep is not None:
                keep.append(o)
            return ['ok', o.bin, type(o).__name__]
        if kind == 'fromstring':
            o = getattr(bs, call[1]).fromstring(call[2])
            if keep is not None:
                keep.append(o)
            return ['ok', o.bin]
        if kind == 'pack':
            o = bs.pack(call[1], *call[2], **call[3])
            if keep is not None:
                keep.append(o)
            return ['ok', o.bin]
        if kind == 'unpack':
            return ['ok', [nv(v) for v in bs.Bits(bin=call[1]).unpack(call[2], **call[3])]]
        if kind == 'readlist':
            s = bs.ConstBitStream(bin=call[1])
            r = s.readlist(call[2], **call[3])
            return ['ok', [nv(v) for v in r], s.pos]
        if kind == 'read':
            s = bs.ConstBitStream(bin=call[1])
            r = s.read(call[2])
            return ['ok', nv(r), s.pos]
        if kind == 'dtype':
            token, length, scale = call[1], call[2], call[3]
            args = [token] + ([length] if length is not None else [])
            d = bs.Dtype(*args, scale=scale) if scale is not None else bs.Dtype(*args)
            probe_bits = '01011010' * 8
            obs = [d.name, d.length, d.bitlength, nv(d.scale), str(d), repr(d)]
            # equality and hashing against the same dtype reached through the other constructor form and through a token string
            try:
                twin = bs.Dtype(d.name, d.length) if d.length is not None else bs.Dtype(d.name)
                obs += [d == twin, twin == d, d != twin, hash(d) == hash(twin), d in [twin], {twin: 1}.get(d)]
                if d.length:
                    tw2 = bs.Dtype(f'{d.name}{d.length}')
                    obs += [d == tw2, hash(d) == hash(tw2)]
            except Exception as e:  # noqa
                obs.append(['exc', type(e).__name__])
            if d.bitlength:
                p = bs.Bits(bin=probe_bits[:d.bitlength])
                try:
                    obs.append(nv(d.parse(p)))
                except Exception as e:  # noqa
                    obs.append(['exc', type(e).__name__])
                try:
                    obs.append(d.build(call[4]).bin)
                except Exception as e:  # noqa
                    obs.append(['exc', type(e).__name__])
            return ['ok', obs]
        if kind == 'construct_len':
            # n zero bits: cls(length=n) or cls(n)
            _, cname, n, how = call
            o = getattr(bs, cname)(length=n) if how == 'kw' else getattr(bs, cname)(n)
            if keep is not None:
                keep.append(o)
            return ['ok', o.bin, len(o)]
        if kind == 'shift':
            # a shift (or another operator that builds its result from a fresh constant) on a fresh object
            _, cname, bits, op, n = call
            x = getattr(bs, cname)(bin=bits)
            r = {'>>': lambda: x >> n, '<<': lambda: x << n, '~': lambda: ~x, '*': lambda: x * n, '^': lambda: x ^ x, '&z': lambda: x & getattr(bs, cname)(length=len(x))}[op]()
            if keep is not None:
                keep.append(r)
            return ['ok', r.bin, x.bin]
        if kind == 'array_eq':
            # an Array compared with an equal one made earlier in the history (if there is one), and with a fresh one
            _, dt, vals = call
            new = bs.Array(dt, vals)
            old = None
            okey = json.dumps(current_options(), sort_keys=True)      # only Arrays made under the same option values are comparable
            if keep is not None:
                for k in reversed(keep):
                    if isinstance(k, tuple) and k[0] == 'arr' and k[1] == (dt, json.dumps(vals), okey):
                        old = k[2]
                        break
                keep.append(('arr', (dt, json.dumps(vals), okey), new))
            other = old if old is not None else bs.Array(dt, vals)
            return ['ok', new.equals(other), other.equals(new), new.data.bin, str(new.dtype) == str(other.dtype), new.dtype == other.dtype]
        if kind == 'construct_kw':
            # keyword construction / pack / Dtype.build with values that are equal as cache keys but not the same (0.0, -0.0, 0, False; 1, 1.0, True)
            _, cname, name, length, vj, how = call
            v = {'f': lambda x: float.fromhex(x), 'i': int, 'b': bool}[vj[0]](vj[1])
            if how == 'kw':
                o = getattr(bs, cname)(**{name: v}, length=length) if length is not None else getattr(bs, cname)(**{name: v})
            elif how == 'pack':
                o = bs.pack(name if length is None else f'{name}:{length}', v)
            elif how == 'build':
                o = bs.Dtype(name, length).build(v) if length is not None else bs.Dtype(name).build(v)
            elif how == 'array':
                o = bs.Array(bs.Dtype(name, length) if length is not None else bs.Dtype(name), [v]).data
            else:
                o = bs.BitArray(length or 8)
                setattr(o, name if length is None else f'{name}{length}', v)
            if keep is not None:
                keep.append(o)
            return ['ok', o.bin]
        if kind == 'read_dtype':
            # read / peek with a Dtype OBJECT (possibly without a length, possibly scaled)
            _, bits, token, length, scale, how = call
            args = [token] + ([length] if length is not None else [])
            d = bs.Dtype(*args, scale=scale) if scale is not None else bs.Dtype(*args)
            st_ = bs.ConstBitStream(bin=bits)
            r = st_.read(d) if how == 'read' else st_.peek(d)
            return ['ok', nv(r), st_.pos]
        if kind == 'unpack_dtypes':
            # unpack / readlist / peeklist with a list of Dtype objects
            _, bits, specs, how = call
            ds = []
            for token, length, scale in specs:
                args = [token] + ([length] if length is not None else [])
                ds.append(bs.Dtype(*args, scale=scale) if scale is not None else bs.Dtype(*args))
            st_ = bs.ConstBitStream(bin=bits)
            r = st_.unpack(ds) if how == 'unpack' else (st_.readlist(ds) if how == 'readlist' else st_.peeklist(ds))
            return ['ok', [nv(v) for v in r], st_.pos]
        if kind == 'dtype_of_dtype':
            token, length, scale1, scale2 = call[1], call[2], call[3], call[4]
            args = [token] + ([length] if length is not None else [])
            d0 = bs.Dtype(*args, scale=scale1) if scale1 is not None else bs.Dtype(*args)
            d = bs.Dtype(d0, scale=scale2) if scale2 is not None else bs.Dtype(d0)
            obs = []
            for x in (d, d0):
                obs += [x.name, x.length, x.bitlength, nv(x.scale), str(x)]
                if x.bitlength:
                    try:
                        obs.append(nv(x.parse(bs.Bits(bin=('01011010' * 8)[:x.bitlength]))))
                    except Exception as e:  # noqa
                        obs.append(['exc', type(e).__name__])
            return ['ok', obs]
        if kind == 'array':
            a = bs.Array(call[1], call[2])
            if keep is not None:
                keep.append(a.data)
            return ['ok', a.data.bin, str(a.dtype), [nv(v) for v in a.tolist()]]
        if kind == 'setattr':
            x = bs.BitArray(bin=call[1])
            setattr(x, call[2], call[3])
            if keep is not None:
                keep.append(x)
            return ['ok', x.bin]
        if kind == 'derive':
            how, lit, cname = call[1], call[2], call[3]
            c = getattr(bs, cname)
            if how == 'pack_bits':
                o = bs.pack('bits', lit)
            elif how == 'pack_bits_len':
                o = bs.pack(f'bits:{len(bs.Bits(lit))}', lit)
            elif how == 'pack_kw':
                o = bs.pack('bits=v', v=lit)
            elif how == 'pack_token':
                o = bs.pack(lit)
            elif how == 'add_left':
                o = c() + lit
            elif how == 'add_right':
                o = lit + c()
            elif how == 'join':
                o = c().join([lit])
            elif how == 'bits_kw':
                o = c(bits=lit)
            elif how == 'setattr_bits':
                o = bs.BitArray('0b1')
                o.bits = lit
            elif how == 'dtype_build':
                o = c(bs.Dtype('bits').build(lit))
            elif how == 'iadd':
                o = bs.BitArray()
                o += lit
            elif how == 'prepend':
                o = bs.BitStream()
                o.prepend(lit)
            elif how == 'replace_new':
                o = bs.BitArray('0b1')
                o.replace('0b1', lit)
            elif how == 'insert':
                o = bs.BitArray()
                o.insert(lit, 0)
            else:
                raise HarnessError('unknown derive ' + how)
            if keep is not None:
                keep.append(o)
            return ['ok', o.bin, type(o).__name__]
        if kind == 'pp':
            import io
            s = io.StringIO()
            bs.Bits(bin=call[1]).pp(call[2], stream=s)
            return ['ok', s.getvalue()]
    except Exception as e:  # noqa
        return ['exc', type(e).__name__]
    raise HarnessError('unknown call ' + str(call))


# ---------------------------------------------------------------------------------------------
# sidecar client

_SIDE = None
_MEMO = {}


_SIDE_PID = None


def sidecar():
    global _SIDE, _SIDE_PID
    if _SIDE_PID != os.getpid():
        # a forked worker must not talk to its parent's sidecar
        _SIDE, _SIDE_PID = None, os.getpid()
        _MEMO.clear()
    if _SIDE is None or _SIDE.poll() is not None:
        env = dict(os.environ)
        env['PYTHONPATH'] = f'{REPO}:{HERE}'
        _SIDE = subprocess.Popen([sys.executable, '-m', 'vf.sidecar'], stdin=subprocess.PIPE, stdout=subprocess.PIPE, env=env, text=True, bufsize=1, cwd=HERE)
    return _SIDE


def cold(call, opts):
    key = json.dumps([call, opts], sort_keys=True)
    if key in _MEMO:
        return _MEMO[key]
    p = sidecar()
    p.stdin.write(json.dumps({'opts': opts, 'call': call}) + '\n')
    p.stdin.flush()
    line = p.stdout.readline()
    if not line:
        raise HarnessError('cold-cache sidecar died')
    res = json.loads(line)
    if res and res[0] == 'harness-error':
        raise HarnessError('sidecar: ' + str(res))
    if len(_MEMO) > 200000:
        _MEMO.clear()
    _MEMO[key] = res
    return res


def fresh_interpreter(call, opts):
    code = ("import sys, json; from vf.props import c09; c09.apply_options(json.loads(sys.argv[2])); "
            "print(json.dumps(c09.evaluate(json.loads(sys.argv[1]))))")
    env = dict(os.environ)
    env['PYTHONPATH'] = f'{REPO}:{HERE}'
    r = subprocess.run([sys.executable, '-c', code, json.dumps(call), json.dumps(opts)], capture_output=True, text=True, env=env, cwd=HERE, timeout=120)
    if r.returncode != 0:
        raise HarnessError('fresh interpreter failed: ' + r.stderr[-500:])
    return json.loads(r.stdout.strip().splitlines()[-1])


VALIDATION_CALLS = [
    (['construct', 'Bits', 'e4m3mxfp=1000'], {'lsb0': False, 'bytealigned': False, 'mxfp_overflow': 'overflow'}),
    (['construct', 'Bits', 'e5m2mxfp=1e9'], {'lsb0': False, 'bytealigned': False, 'mxfp_overflow': 'saturate'}),
    (['construct', 'BitArray', 'ue=3, 0xff'], {'lsb0': True, 'bytealigned': False, 'mxfp_overflow': 'saturate'}),
    (['pack', 'uint:n, 2*(hex:4)', [3, 'a', 'b'], {'n': 7}], {'lsb0': True, 'bytealigned': False, 'mxfp_overflow': 'saturate'}),
    (['dtype', 'float16', None, 1.0, 2.5], {'lsb0': False, 'bytealigned': True, 'mxfp_overflow': 'saturate'}),
    (['unpack', '1011001110001111', 'uint:4, bin', {}], {'lsb0': True, 'bytealigned': False, 'mxfp_overflow': 'saturate'}),
]


def selftest():
    """cross-validate the cold oracle (sidecar with generic cache clearing) against fresh interpreters"""
    p = sidecar()
    p.stdin.write(json.dumps({'cmd': 'caches'}) + '\n')
    p.stdin.flush()
    found = json.loads(p.stdout.readline())['caches']
    if len(found) < 1:
        raise HarnessError('no caches discovered on the package: the cold-cache oracle would be vacuous')
    for call, opts in VALIDATION_CALLS:
        # warm the sidecar with the same call under other options first, then ask for the cold answer
        for other in ({'lsb0': False, 'bytealigned': False, 'mxfp_overflow': 'saturate'}, {'lsb0': not opts['lsb0'], 'bytealigned': False, 'mxfp_overflow': 'overflow'}):
            _MEMO.clear()
            cold(call, other)
        _MEMO.clear()
        a = cold(call, opts)
        b = fresh_interpreter(call, opts)
        if a != b:
            raise HarnessError(f'cold-cache sidecar disagrees with a fresh interpreter for {call} under {opts}: {a} vs {b} (cache discovery incomplete?)')
    _MEMO.clear()


# ---------------------------------------------------------------------------------------------
# generators

def string_pool_item(draw):
    k = draw(st.integers(0, 17))
    n = draw(st.integers(1, 40))
    v = draw(st.integers(0, 300))
    small = draw(st.integers(0, 12))
    if k == 0:
        return f'uint:{n}={v % (1 << n)}'
    if k == 1:
        return f'int{n}={v % (1 << n) - (1 << (n - 1))}'
    if k == 2:
        return '0x' + format(v * 7919 + small, 'x')
    if k == 3:
        return '0b' + format(v + 1, 'b')
    if k == 4:
        return f'e4m3mxfp={draw(st.sampled_from([1000, 500, 449, 464, 1e9, -1000, 0.5, 3, 448]))}'
    if k == 5:
        return f'e5m2mxfp={draw(st.sampled_from([1e9, 60000, 61440, 57344, -1e6, 0.25, 70000]))}'
    if k == 6:
        return f'{draw(st.sampled_from(["ue", "se", "uie", "sie"]))}={small}'
    if k == 7:
        return f'hex={format(v, "x")}, bin={format(small, "b")}'
    if k == 8:
        return f'{small % 4}*(uint:{1 + n % 9}={v % (1 << (1 + n % 9))}, 0b1)'
    if k == 9:
        return f'float:{draw(st.sampled_from([16, 32, 64]))}={v / 8}'
    if k == 10:
        return f'uintle:{8 * (1 + n % 4)}={v}'
    if k == 11:
        return f'bool={draw(st.sampled_from(["True", "False", "1", "0"]))}, pad:{small}'
    if k == 12:
        return f'p3binary={v / 4}, p4binary={small}'
    if k == 13:
        return f'bfloat={v}.5, e2m1mxfp={small / 2}, e3m2mxfp={small}, e2m3mxfp={small / 4}'
    if k == 14:
        return f'mxint={small / 64}, e8m0mxfp={2 ** (small - 6)}'
    if k == 15:
        return f'oct:{3 * (1 + n % 6)}={format(v % (8 ** (1 + n % 6)), "o").zfill(1 + n % 6)}'
    if k == 16:
        return f'bits:{4}=0x{format(small, "x")}, bytes'.replace(', bytes', '')
    return f'uint{n}={v % (1 << n)}, e4m3mxfp={draw(st.sampled_from([1000, -3000, 7]))}, ue={small}'


FRAGS = [('uint:8', 5, 8), ('hex:8', 'a5', 8), ('bin:4', '1010', 4), ('uint:n', 1, None), ('int:n', -1, None), ('bool', True, 1), ('uint:9', 300, 9), ('int:7', -5, 7),
         ('2*(uint:3)', (1, 2), 6), ('e4m3mxfp', 1000.0, 8), ('ue', 3, 5), ('bits:n', None, None), ('n*bool', None, None), ('pad:n', None, None), ('oct:3', '5', 3),
         ('float:16', 1.5, 16), ('uint:m', 1, None)]


def _frag_vals(frag, n):
    f, v, _ = frag
    if f == 'bits:n':
        return ['0b' + '1' * n]
    if f == 'n*bool':
        return [True] * n
    if f == 'pad:n':
        return []
    return list(v) if isinstance(v, tuple) else [v]


KW_VARIANTS = ['good', 'good', 'good', 'good', 'missing', 'text', 'extra', 'zero', 'float', 'negative']


def _kwargs(draw, n):
    how = draw(st.sampled_from(KW_VARIANTS))
    return {'good': {'n': n, 'm': 3}, 'missing': {}, 'text': {'n': 'four', 'm': 3}, 'extra': {'n': n, 'm': 3, 'zz': 1}, 'zero': {'n': 0, 'm': 3}, 'float': {'n': 2.5, 'm': 3},
            'negative': {'n': -n, 'm': 3}}[how]


@st.composite
def frag_call_st(draw):
    """pack / unpack / readlist whose format is 1..3 fragments of a small pool, as one string or as a list of strings, with good and bad keyword sets: the
    same first fragment keeps coming back in other combinations"""
    frs = draw(st.lists(st.sampled_from(FRAGS[:9] if draw(st.booleans()) else FRAGS), min_size=1, max_size=3))
    n = draw(st.integers(1, 9))
    as_list = draw(st.booleans())
    fmt = [f[0] for f in frs] if as_list else ', '.join(f[0] for f in frs)
    kw = _kwargs(draw, n)
    what = draw(st.sampled_from(['pack', 'pack', 'unpack', 'readlist']))
    if what == 'pack':
        vals = [v for f in frs for v in _frag_vals(f, n)]
        if draw(st.integers(0, 9)) == 0 and vals:
            vals = vals[:-1]
        return ['pack', fmt, vals, kw]
    bits = draw(bits_st(max_len=80, min_len=0 if draw(st.integers(0, 5)) == 0 else 64))
    return [what, bits, fmt, kw]


SCALES = [None, None, 2, 4, 0.5, 2.0]


EQUAL_KEYS = [[['f', (0.0).hex()], ['f', (-0.0).hex()], ['i', 0], ['b', False]], [['f', (1.0).hex()], ['i', 1], ['b', True]], [['f', (2.0).hex()], ['i', 2]],
              [['f', (-1.0).hex()], ['i', -1]], [['f', (3.0).hex()], ['i', 3]]]


@st.composite
def zero_shift_call_st(draw):
    k = draw(st.integers(0, 2))
    n = draw(st.sampled_from([1, 2, 3, 5, 8, 9, 16]))
    if k == 0:
        return ['construct_len', draw(st.sampled_from(CLASSES)), n, draw(st.sampled_from(['kw', 'pos']))]
    if k == 1:
        bits = draw(bits_st(max_len=24, min_len=4))
        return ['shift', draw(st.sampled_from(CLASSES)), bits, draw(st.sampled_from(['>>', '>>', '<<', '~', '*', '^', '&z'])), min(n, len(bits) - 1)]
    dt = draw(st.sampled_from(['uint8', 'int4', 'float16', 'uint12', 'e4m3mxfp', '<h']))
    return ['array_eq', dt, draw(st.sampled_from([[1, 2], [0], [3, 1, 2]]))]


@st.composite
def zero_shift_st(draw, tier):
    """zero-filled constructions, operators that build their result from a fresh constant, and Array comparisons, with cache floods in between"""
    steps = []
    for _ in range(draw(st.integers(3, 10))):
        steps.append(['call', draw(zero_shift_call_st())])
        if draw(st.integers(0, 3)) == 0:
            steps.append(['mutate', 0, draw(st.sampled_from(['invert', 'append', 'set0']))])
        if draw(st.integers(0, 5)) == 0:
            steps.append(['fill', draw(st.integers(0, 1000)), 300])
        if draw(st.integers(0, 2)) == 0:
            steps.append(['repeat', draw(st.integers(0, 1000))])
    return {'steps': steps}


@st.composite
def kw_value_call_st(draw):
    group = draw(st.sampled_from(EQUAL_KEYS))
    name, length = draw(st.sampled_from([('float', 16), ('float', 32), ('float', 64), ('floatle', 32), ('bfloat', None), ('int', 8), ('uint', 8), ('e4m3mxfp', None), ('p4binary', None),
                                         ('mxint', None), ('e5m2mxfp', None), ('se', None), ('bool', None), ('uintle', 16)]))
    return ['construct_kw', draw(st.sampled_from(CLASSES)), name, length, draw(st.sampled_from(group)), draw(st.sampled_from(['kw', 'pack', 'build', 'array', 'setattr']))]


@st.composite
def equal_keys_st(draw, tier):
    """the same construction with values that compare equal (0.0, -0.0, 0, False ...) one after the other"""
    steps = []
    for _ in range(draw(st.integers(2, 8))):
        c = draw(kw_value_call_st())
        steps.append(['call', c])
        if draw(st.booleans()):
            c2 = list(c)
            grp = next(g for g in EQUAL_KEYS if c[4] in g)
            c2[4] = draw(st.sampled_from(grp))
            if draw(st.booleans()):
                c2[5] = draw(st.sampled_from(['kw', 'pack', 'build', 'array', 'setattr']))
            steps.append(['call', c2])
        if draw(st.integers(0, 4)) == 0:
            steps.append(['mutate', 0, draw(st.sampled_from(['invert', 'append', 'set0']))])
    return {'steps': steps}


@st.composite
def dtype_obj_call_st(draw):
    """the same few dtypes as Dtype objects with different scales, with and without a length, in read / peek / unpack / readlist / peeklist"""
    bits = draw(bits_st(max_len=48, min_len=16))
    if draw(st.booleans()):
        token = draw(st.sampled_from(['uint', 'int', 'uint', 'float', 'hex', 'ue', 'uie', 'se', 'uint8', 'e4m3mxfp']))
        length = None if token in ('ue', 'uie', 'se', 'uint8', 'e4m3mxfp') else draw(st.sampled_from([None, None, 8, 16]))
        if token == 'float':
            length = 16
            bits = bits[:16] if draw(st.booleans()) else bits
        if token == 'hex':
            bits = bits[:len(bits) // 4 * 4]
        return ['read_dtype', bits, token, length, draw(st.sampled_from(SCALES)) if token != 'hex' else None, draw(st.sampled_from(['read', 'peek']))]
    specs = []
    for _ in range(draw(st.integers(1, 3))):
        token = draw(st.sampled_from(['ue', 'uie', 'se', 'uint', 'int']))
        specs.append([token, None if token in ('ue', 'uie', 'se') else draw(st.sampled_from([3, 8])), draw(st.sampled_from(SCALES))])
    return ['unpack_dtypes', bits, specs, draw(st.sampled_from(['unpack', 'readlist', 'peeklist']))]


@st.composite
def call_st(draw):
    k = draw(st.integers(0, 15))
    if k == 12:
        token = draw(st.sampled_from(['uint8', 'float16', 'int12', 'e4m3mxfp', 'uint', 'u8', 'mxint', 'hex']))
        length = 8 if token in ('uint', 'hex') else None
        return ['dtype_of_dtype', token, length, draw(st.sampled_from([None, None, 2, 0.5])), draw(st.sampled_from([None, 2, 4, 0.5, 1]))]
    if k == 13 and draw(st.integers(0, 2)) == 0:
        return draw(zero_shift_call_st())
    if k == 13 and draw(st.booleans()):
        return draw(kw_value_call_st())
    if k == 13:
        return draw(dtype_obj_call_st())
    if k >= 14:
        return draw(frag_call_st())
    if k <= 4:
        s = string_pool_item(draw)
        if k == 4:
            return ['fromstring', draw(st.sampled_from(CLASSES)), s]
        return ['construct', draw(st.sampled_from(CLASSES)), s]
    if k == 5:
        n = draw(st.integers(1, 24))
        fmt = draw(st.sampled_from(['uint:n, hex:4', 'int:n', '2*(uint:n)', 'bin:n, uint:8', 'uint:n, e4m3mxfp, bool']))
        vals = {'uint:n, hex:4': [1, 'a'], 'int:n': [-1], '2*(uint:n)': [1, 0], 'bin:n, uint:8': [format(1, f'0{n}b'), 200], 'uint:n, e4m3mxfp, bool': [1, 1000.0, True]}[fmt]
        return ['pack', fmt, vals, {'n': n}]
    if k == 6:
        bits = draw(bits_st(max_len=64, min_len=24))
        n = draw(st.integers(1, 8))
        fmt = draw(st.sampled_from(['uint:n, bin', 'hex:4, uint:n', 'n*bool', 'bits:n, 2*(uint:3)', 'uint:n, int:n, bits', 'pad:n, e4m3mxfp, oct:3']))
        return [draw(st.sampled_from(['unpack', 'readlist'])), bits, fmt, {'n': n}]
    if k == 7:
        bits = draw(bits_st(max_len=64, min_len=24))
        return ['read', bits, draw(st.sampled_from(['uint:5', 'uint5', 'hex:8', 'e4m3mxfp', 'bool', 'bin:3', 'ue', 'se', 'intle:16', 'bfloat', 'float:16', 'bytes:2', 'pad:3', 'bits:7']))]
    if k == 8:
        token = draw(st.sampled_from(['uint', 'int', 'float', 'hex', 'bin', 'bytes', 'uintle', 'e4m3mxfp', 'e5m2mxfp', 'mxint', 'bfloat', 'float16', 'uint8', 'int:12', 'p3binary', 'bool', 'ue', 'bits']))
        length = draw(st.sampled_from([None, 8, 16, 32, 64, 4, 12, 1])) if token in ('uint', 'int', 'float', 'hex', 'bin', 'bytes', 'uintle', 'bits') else None
        scale = draw(st.sampled_from([None, None, 1, 1.0, 2, 0.5, 2.0, 3]))
        return ['dtype', token, length, scale, draw(st.sampled_from([1, 1.0, 2, 4.5, 100, 0]))]
    if k == 9:
        dt = draw(st.sampled_from(['uint8', 'int4', 'e4m3mxfp', 'e5m2mxfp', 'float16', '<h', 'hex4', 'bool', 'mxint']))
        vals = {'uint8': [1, 255], 'int4': [-8, 7], 'e4m3mxfp': [1000.0, -1e6, 0.5], 'e5m2mxfp': [1e9, 60000.0], 'float16': [1.5, 1e9], '<h': [-2, 300], 'hex4': ['a', 'f'], 'bool': [1, 0], 'mxint': [0.5, 5.0]}[dt]
        return ['array', dt, vals]
    if k == 10:
        bits = draw(bits_st(max_len=24, min_len=8))
        return ['setattr', bits, draw(st.sampled_from(['uint8', 'e4m3mxfp', 'e5m2mxfp', 'hex', 'int12', 'float32', 'ue', 'se', 'uie', 'sie', 'mxint', 'bfloat', 'p3binary', 'e2m1mxfp', 'bool'])),
                draw(st.sampled_from([3, 1000, 'ff', 1.5, -2, 60000, 0, 1, 5]))]
    if draw(st.booleans()):
        return ['derive', draw(st.sampled_from(DERIVES)), draw(st.sampled_from(HOT)), draw(st.sampled_from(CLASSES))]
    return ['pp', draw(bits_st(max_len=40, min_len=8)), draw(st.sampled_from(['bin', 'hex', 'bin8, hex', 'oct6', 'hex4']))]


@st.composite
def step_st(draw):
    k = draw(st.integers(0, 19))
    if k <= 11:
        return ['call', draw(call_st())]
    if k <= 13:
        return ['repeat', draw(st.integers(0, 1000))]      # repeat an earlier call (same key, maybe under other options)
    if k == 14:
        return ['mutate', draw(st.integers(0, 1000)), draw(st.sampled_from(['invert', 'append', 'clear', 'set0', 'reverse', 'bytes_edit']))]
    if k == 15:
        return ['fill', draw(st.integers(0, 1000)), draw(st.sampled_from([40, 300, 600]))]
    if k <= 17:
        return ['set', 'mxfp_overflow', draw(st.sampled_from(['saturate', 'overflow']))]
    if k == 18:
        return ['set', 'lsb0', draw(st.booleans())]
    return ['set', 'bytealigned', draw(st.booleans())]


@st.composite
def history_st(draw, tier):
    n = draw(st.integers(10, 120 if tier == 'quick' else 500))
    return {'steps': draw(st.lists(step_st(), min_size=n, max_size=n))}


HOT = ['0xabc', '0b1011', '0xff00', '0o17', '0x1', 'uint:8=5', '0b0', 'hex=a5', '2*(0b10)', 'e4m3mxfp=1000']
DERIVES = ['pack_bits', 'pack_bits_len', 'pack_kw', 'pack_token', 'add_left', 'add_right', 'join', 'bits_kw', 'setattr_bits', 'dtype_build', 'iadd', 'prepend', 'replace_new', 'insert']


@st.composite
def literal_sharing_st(draw, tier):
    """derive a (mutable) object from a literal string through some route, mutate it in place, then parse the same literal again"""
    lit = draw(st.sampled_from(HOT))
    steps = [['call', ['construct', draw(st.sampled_from(CLASSES)), lit]]] if draw(st.booleans()) else []
    for _ in range(draw(st.integers(1, 4))):
        steps.append(['call', ['derive', draw(st.sampled_from(DERIVES)), lit, draw(st.sampled_from(CLASSES))]])
        steps.append(['mutate', 0, draw(st.sampled_from(['invert', 'append', 'set0', 'clear', 'reverse', 'bytes_edit']))])
        steps.append(['call', [draw(st.sampled_from(['construct', 'fromstring'])), draw(st.sampled_from(CLASSES)), lit]])
        if draw(st.booleans()):
            steps.append(['call', ['derive', draw(st.sampled_from(DERIVES)), lit, draw(st.sampled_from(CLASSES))]])
    return {'steps': steps}


@st.composite
def setter_sharing_st(draw, tier):
    """a value assigned through a property of a mutable object, that object edited in place, then the same value built again by other means"""
    name, vals = draw(st.sampled_from([('ue', [0, 1, 3, 5, 12]), ('se', [0, 1, -2, 3]), ('uie', [0, 2, 5]), ('sie', [-1, 2]), ('e4m3mxfp', [1.5, 1000, 3]), ('mxint', [1.5, 0.5]),
                                        ('uint8', [3, 5, 255]), ('bfloat', [1.5, 3]), ('bool', [1, 0]), ('hex', ['ff', 'a5'])]))
    v = draw(st.sampled_from(vals))
    steps = []
    for _ in range(draw(st.integers(1, 3))):
        steps.append(['call', ['setattr', draw(bits_st(max_len=16, min_len=8)), name, v]])
        steps.append(['mutate', 0, draw(st.sampled_from(['invert', 'append', 'set0', 'reverse', 'clear']))])
        text = f'{name}={v}'
        steps.append(['call', [draw(st.sampled_from(['construct', 'fromstring'])), draw(st.sampled_from(CLASSES)), text]])
        if name in ('ue', 'se', 'uie', 'sie', 'uint8', 'bool') and draw(st.booleans()):
            steps.append(['call', ['pack', name.replace('uint8', 'uint:8'), [v], {}]])
    return {'steps': steps}


@st.composite
def focused_options_st(draw, tier):
    """same string under different option tuples, with restores"""
    s = draw(st.sampled_from(['e4m3mxfp=1000', 'e5m2mxfp=1e9', 'e5m2mxfp=-70000', 'ue=3', 'se=-2, 0b1', 'uint:8=5, e4m3mxfp=2000', '2*(e5m2mxfp=65000)', 'uie=4'])) if draw(st.booleans()) else string_pool_item(draw)
    cls = draw(st.sampled_from(CLASSES))
    steps = []
    for _ in range(draw(st.integers(2, 8))):
        steps.append(draw(st.sampled_from([['set', 'mxfp_overflow', 'overflow'], ['set', 'mxfp_overflow', 'saturate'], ['set', 'lsb0', True], ['set', 'lsb0', False], ['set', 'bytealigned', True]])))
        steps.append(['call', [draw(st.sampled_from(['construct', 'fromstring'])), draw(st.sampled_from(CLASSES)) if draw(st.booleans()) else cls, s]])
        if draw(st.booleans()):
            steps.append(['mutate', 0, draw(st.sampled_from(['invert', 'append', 'set0']))])
    return {'steps': steps}


@st.composite
def format_focus_st(draw, tier):
    steps = []
    for _ in range(draw(st.integers(2, 10))):
        steps.append(['call', draw(frag_call_st())])
        if draw(st.integers(0, 3)) == 0:
            steps.append(['repeat', draw(st.integers(0, 1000))])
        if draw(st.integers(0, 5)) == 0:
            steps.append(draw(st.sampled_from([['set', 'lsb0', True], ['set', 'lsb0', False], ['set', 'bytealigned', True], ['mutate', 0, 'invert']])))
    return {'steps': steps}


@st.composite
def dtype_focus_st(draw, tier):
    token = draw(st.sampled_from(['uint8', 'float16', 'int12', 'e4m3mxfp', 'uintle16', 'hex8', 'mxint', 'bfloat']))
    steps = []
    for _ in range(draw(st.integers(2, 8))):
        if draw(st.integers(0, 3)) == 0:
            steps.append(['call', ['dtype_of_dtype', token, None, draw(st.sampled_from([None, None, 2, 0.5])), draw(st.sampled_from([None, 2, 4, 0.5, 1]))]])
            tok2 = {'uint8': 'u8', 'float16': 'f16', 'int12': 'i12', 'hex8': 'h8'}.get(token, token)
            steps.append(['call', [draw(st.sampled_from(['construct', 'fromstring'])), 'Bits', f'{tok2}=3' if not token.startswith('hex') else 'hex8=a5']])
            steps.append(['call', ['read', '0101101001011010', tok2]])
        steps.append(['call', ['dtype', token, None, draw(st.sampled_from([None, 1, 1.0, 2, 2.0, 0.5, True])), draw(st.sampled_from([1, 2.0, 4]))]])
        if draw(st.integers(0, 2)) == 0:
            c1 = draw(dtype_obj_call_st())
            steps.append(['call', c1])
            # the same call again with every scale changed / removed
            c2 = json.loads(json.dumps(c1))
            if c2[0] == 'read_dtype' and c2[2] != 'hex':
                c2[4] = draw(st.sampled_from(SCALES))
            elif c2[0] == 'unpack_dtypes':
                for sp in c2[2]:
                    sp[2] = draw(st.sampled_from(SCALES))
            steps.append(['call', c2])
        if draw(st.integers(0, 3)) == 0:
            steps.append(['fill', draw(st.integers(0, 1000)), 300])
    return {'steps': steps}


# ---------------------------------------------------------------------------------------------
# the check

def run(case):
    bs = bitstring_module()
    kept = []
    history = []
    seen = {}          # call key -> set of option tuples it was evaluated under
    distinct_keys = 0
    nt = False
    mutated_since = {}
    first_items = set()
    labels = set()
    for si, step in enumerate(case['steps']):
        kind = step[0]
        if kind == 'set':
            setattr(bs.options, step[1], step[2])
            require(getattr(bs.options, step[1]) == step[2], 'option value not stored')
            continue
        if kind == 'mutate':
            objs = [o for o in kept if isinstance(o, bs.BitArray)]
            if objs:
                o = objs[-1 - (step[1] % len(objs))]      # 0 = the most recently created mutable result
                how = step[2]
                if how == 'invert' and len(o):
                    o.invert()
                elif how == 'append':
                    o.append('0b101')
                elif how == 'clear':
                    o.clear()
                elif how == 'set0' and len(o):
                    o.set(0)
                elif how == 'reverse':
                    o.reverse()
                elif how == 'bytes_edit' and len(o) >= 8:
                    o[0:8] = '0xa5'
                for k in mutated_since:
                    mutated_since[k] = True
            continue
        if kind == 'fill':
            base = step[1]
            for j in range(step[2]):
                attempt(bs.Bits, f'uint:{17 + (j % 13)}={base * 1000 + j}')
                attempt(bs.Dtype, 'uint', 1 + (base + j) % 997)
                attempt(bs.Dtype, f'int{2 + (base + j) % 991}')
                if j % 2 == 0:
                    attempt(lambda: bs.ConstBitStream(bin='1' * 40).read(f'uint:{1 + (base * 7 + j) % 37}'))
                    attempt(getattr, bs.Bits(bin='1' * 24), f'u{1 + j % 24}')
                if j % 3 == 0:
                    attempt(lambda: bs.Bits(bin='1' * 40).unpack(f'uint:{1 + (base + j) % 30}, bin'))
            distinct_keys += step[2]
            continue
        if kind == 'repeat':
            if not history:
                continue
            call = history[step[1] % len(history)]
        else:
            call = step[1]
        opts = current_options()
        key = json.dumps(call, sort_keys=True)
        warm = evaluate(call, kept)
        if len(kept) > 40:
            del kept[:20]
        cold_res = cold(call, opts)
        if warm != cold_res:
            raise Violation(f'result depends on call history: step {si} {call} under {opts} gave {str(warm)[:200]} in the warm interpreter but {str(cold_res)[:200]} on cold caches '
                            f'| earlier option tuples for this call: {sorted(seen.get(key, []))[:4]} | previous steps: {[s for s in case["steps"][max(0, si - 6):si]]}')
        after = current_options()
        require(after == opts, 'a call changed the module options', before=opts, after=after, call=call)
        ot = json.dumps(opts, sort_keys=True)
        if key in seen and (ot not in seen[key] or mutated_since.get(key) or distinct_keys >= 256):
            nt = True
        if call[0] in ('pack', 'unpack', 'readlist'):
            fmt = call[1] if call[0] == 'pack' else call[2]
            first = fmt[0] if isinstance(fmt, list) else fmt.split(',')[0]
            if key not in seen and first in first_items:
                nt = True      # a format sharing its first item (cache key of the parser) with an earlier, different call
            first_items.add(first)
        if call[0] in ('dtype_of_dtype', 'construct_kw', 'construct_len', 'shift', 'array_eq'):
            nt = nt or len(history) > 0
        if key not in seen:
            distinct_keys += 1
        seen.setdefault(key, set()).add(ot)
        mutated_since[key] = False
        history.append(call)
        labels.add(call[0])
    return {'nt': nt, 'labels': sorted(labels) + ['keys>=256' if distinct_keys >= 256 else 'keys<256'], 'evals': max(1, len(history))}


SUBCHECKS = [
    Sub('C09.string_cache_options_and_mutation', run, strategy=focused_options_st, examples={'quick': 1500, 'thorough': 20000}),
    Sub('C09.setter_sharing', run, strategy=setter_sharing_st, examples={'quick': 1000, 'thorough': 15000}),
    Sub('C09.literal_sharing', run, strategy=literal_sharing_st, examples={'quick': 1500, 'thorough': 20000}),
    Sub('C09.format_cache', run, strategy=format_focus_st, examples={'quick': 1500, 'thorough': 20000}),
    Sub('C09.equal_but_different_values', run, strategy=equal_keys_st, examples={'quick': 1500, 'thorough': 20000}),
    Sub('C09.constants_and_array_equality', run, strategy=zero_shift_st, examples={'quick': 1200, 'thorough': 15000}),
    Sub('C09.dtype_cache', run, strategy=dtype_focus_st, examples={'quick': 800, 'thorough': 10000}),
    Sub('C09.history', run, strategy=history_st, examples={'quick': 500, 'thorough': 6000}),
]
for _s in SUBCHECKS:
    _s.keep_caches = False   # caches are reset at the start of a case (a case is its own history); histories inside a case stay warm
