"""C15 - out-of-range or mis-sized values are rejected (CreationError, a ValueError), never wrapped or truncated."""
import io
import sys

from hypothesis import strategies as st

from vf.engine import Sub, require, bitstring_module
from vf.common import cls_st, mk, attempt, is_raised, CLASSES, MUTABLE, cls_of, bits_st, bits_of_len, to_bytes
from vf import codecs, files
from vf.codecs import canon, encode

RULE = ("cases = (dtype, stated length valid or invalid, value at / just inside / just outside each limit (widths 1..130 so 63/64/65 are hit), route), in a third of the integer cases preceded by 1..3 preludes that use the same value with a wider / scaled / "
        "other-sign dtype, at the limits, through tokens, Dtype objects and Arrays (the verdict must not depend on them); "
        "text digits with one invalid character or a width that disagrees with the stated length; byte/bitarray/BytesIO/file sources with (offset, length) "
        "windows inside, at and beyond the data and negative. Oracle = total classifier fits(dtype, length, value) -> bits | REJECT. REJECT => ValueError "
        "(CreationError) and an existing target unchanged; otherwise success with exactly the classifier's bits. Non-trivial = value within 1 of a limit, "
        "or an invalid length, or a window touching the end of the data; distinct = SHA-1 of the case.")
ASSUMPTIONS = ["bytes= with length/offset is the documented truncation route: a shorter requested window is success; only windows outside the data are rejected",
               "floats too large for the width are outside this property (documented overflow to inf)"]

REJECT = 'REJECT'
INT_NAMES = ['uint', 'int', 'uintbe', 'intbe', 'uintle', 'intle', 'uintne', 'intne', 'u', 'i']
ROUTES = ['kw_length', 'kw_name', 'token', 'token_plain', 'setattr_name', 'setattr_existing', 'pack', 'pack_kwlen', 'pack_kwval', 'dtype_build', 'array_set', 'array_append',
          'array_slice', 'array_slice_step', 'array_slice_grow', 'array_insert', 'array_init']


def fits_int(name, n, v):
    if n is None or not codecs.valid_length(name, n):
        return REJECT
    lo, hi = codecs.int_range(name, n)
    if not lo <= v <= hi:
        return REJECT
    return encode(name, v, n)


def do_route(bs, route, name, n, pv, text, clsname, existing_bits='1011'):
    """returns (result bitstring or Raised, target object or None, target original bits)"""
    c = cls_of(clsname)
    if route == 'kw_length':
        return attempt(lambda: c(**{name: pv}, length=n)), None
    if route == 'kw_name':
        return attempt(lambda: c(**{f'{name}{n}': pv})), None
    if route == 'token':
        return attempt(lambda: c(f'{name}:{n}={text}')), None
    if route == 'token_plain':
        return attempt(lambda: c(f'{name}{n}={text}')), None
    if route == 'pack':
        return attempt(lambda: c(bs.pack(f'{name}:{n}', pv))), None
    if route == 'pack_kwlen':
        return attempt(lambda: c(bs.pack(f'{name}:n', pv, n=n))), None
    if route == 'pack_kwval':
        return attempt(lambda: c(bs.pack(f'{name}:{n}=v', v=pv))), None
    if route == 'dtype_build':
        return attempt(lambda: c(bs.Dtype(name, n).build(pv))), None
    if route == 'setattr_name':
        a = cls_of(MUTABLE[n % 2 if isinstance(n, int) else 0])(bin=existing_bits)
        r = attempt(setattr, a, f'{name}{n}', pv)
        return (a if not is_raised(r) else r), a
    if route == 'setattr_existing':
        if not isinstance(n, int) or n < 0 or n > 4000:
            return attempt(lambda: c(**{name: pv}, length=n)), None
        ex = ('10' * n)[:n]
        a = cls_of(MUTABLE[n % 2])(bin=ex)
        r = attempt(setattr, a, name, pv)
        return (a if not is_raised(r) else r), (a, ex)
    raise AssertionError(route)


# ------------------------------------------------------------------------------------------- integer ranges

@st.composite
def int_case(draw, tier):
    name = draw(st.sampled_from(INT_NAMES))
    c = canon(name)
    if c in ('uint', 'int'):
        n = draw(st.sampled_from([1, 2, 7, 8, 9, 31, 32, 33, 63, 64, 65, 127, 128, 129]) | st.integers(1, 130))
    else:
        n = 8 * draw(st.integers(1, 17))
    lo, hi = codecs.int_range(name, n)
    k = draw(st.integers(0, 9))
    if k <= 6:
        v = draw(st.sampled_from([lo - 2, lo - 1, lo, lo + 1, hi - 1, hi, hi + 1, hi + 2, 0, -1, 1]))
    elif k == 7:
        v = draw(st.sampled_from([hi * 2 + 1, lo * 2 - 2, 1 << (n + 7), -(1 << (n + 7)), hi + (1 << n), lo - (1 << n)]))
    else:
        v = draw(st.integers(lo - (1 << n), hi + (1 << n)))
    prelude = draw(st.lists(st.sampled_from(PRELUDES), max_size=3)) if draw(st.integers(0, 2)) == 0 else []
    return {'name': name, 'n': n, 'v': v, 'route': draw(st.sampled_from(ROUTES)), 'cls': draw(cls_st), 'as_str': draw(st.integers(0, 5)) == 0, 'prelude': prelude}


# things done with the same value / the same dtype just before the attempt under test: accepting or rejecting must not depend on them
PRELUDES = ['wider', 'scaled_build', 'scaled_array', 'other_sign', 'limit_ok', 'same_attempt', 'array_same', 'scaled_array_fit', 'token_same', 'dtype_obj_same']


def run_prelude(bs, what, name, n, v, route, clsname):
    lo, hi = codecs.int_range(name, n)
    step = 8 if canon(name) not in ('uint', 'int') else 3
    other = {'uint': 'int', 'int': 'uint', 'u': 'i', 'i': 'u'}.get(name, name.replace('uint', 'int') if name.startswith('uint') else name.replace('int', 'uint'))
    if what == 'wider':
        attempt(lambda: cls_of(clsname)(**{name: v}, length=n + 2 * step))
        attempt(lambda: bs.Array(f'{name}{n + 2 * step}', [v]))
    elif what == 'scaled_build':
        for sc in (2, 4, 0.5):
            attempt(lambda: bs.Dtype(name, n, scale=sc).build(v))
    elif what == 'scaled_array':
        for sc in (4, 16):
            attempt(lambda: bs.Array(bs.Dtype(name, n, scale=sc), [v, 0]))
    elif what == 'scaled_array_fit':
        # a scale for which the value does fit
        sc = 1 << max(1, (abs(v).bit_length() - max(n - 2, 1)))
        a = attempt(lambda: bs.Array(bs.Dtype(name, n, scale=sc), [v]))
        if not is_raised(a):
            attempt(a.append, v)
    elif what == 'other_sign':
        attempt(lambda: cls_of(clsname)(**{other: v}, length=n))
        attempt(lambda: bs.Array(f'{other}{n}', [v]))
    elif what == 'limit_ok':
        for w in (lo, hi):
            attempt(lambda: cls_of(clsname)(**{name: w}, length=n))
            attempt(lambda: bs.Array(f'{name}{n}', [w]))
    elif what == 'same_attempt':
        if not route.startswith('array_'):
            do_route(bs, route, name, n, v, str(v), clsname)
        else:
            attempt(lambda: bs.Array(f'{name}{n}', [v]))
    elif what == 'array_same':
        a = bs.Array(f'{name}{n}', [0])
        attempt(a.append, v)
        attempt(a.__setitem__, 0, v)
    elif what == 'token_same':
        attempt(lambda: bs.Bits(f'{name}:{n}={v}'))
        attempt(lambda: bs.pack(f'{name}:{n}', v))
    elif what == 'dtype_obj_same':
        d = bs.Dtype(name, n)
        attempt(d.build, v)
        attempt(lambda: bs.Array(d, [v]))


def run_int(case):
    bs = bitstring_module()
    name, n, v, route = case['name'], case['n'], case['v'], case['route']
    exp = fits_int(name, n, v)
    lo, hi = codecs.int_range(name, n)
    nt = min(abs(v - lo), abs(v - hi)) <= 1
    pv = str(v) if case['as_str'] and route in ('kw_length', 'kw_name', 'dtype_build') else v
    for what in case.get('prelude', ()):
        run_prelude(bs, what, name, n, v, route, case['cls'])
    if route.startswith('array_'):
        one = 1 if hi >= 1 else 0
        z = encode(name, 0, n)
        o = encode(name, one, n)
        if route == 'array_init':
            r = attempt(bs.Array, f'{name}{n}', [one, v, 0])
            if exp == REJECT:
                require(is_raised(r, ValueError), 'Array created from an out-of-range item must raise ValueError', got=r, case=case)
            else:
                require(not is_raised(r) and r.data.bin == o + exp + z, 'Array items were not stored with their exact encodings', got=r, case=case)
            return {'nt': nt, 'labels': [name, route, 'reject' if exp == REJECT else 'ok']}
        arr = bs.Array(f'{name}{n}', [0, one, 0, one])
        before = arr.data.bin
        if route == 'array_set':
            r = attempt(arr.__setitem__, 1, v)
            want = before[:n] + (exp if exp != REJECT else '') + before[2 * n:]
        elif route == 'array_append':
            r = attempt(arr.append, v)
            want = before + (exp if exp != REJECT else '')
        elif route == 'array_insert':
            r = attempt(arr.insert, 1, v)
            want = before[:n] + (exp if exp != REJECT else '') + before[n:]
        elif route == 'array_slice':         # same number of items, the good one first
            r = attempt(arr.__setitem__, slice(0, 2), [one, v])
            want = o + (exp if exp != REJECT else '') + before[2 * n:]
        elif route == 'array_slice_step':    # extended slice, the good one first
            r = attempt(arr.__setitem__, slice(0, 4, 2), [one, v])
            want = o + before[n:2 * n] + (exp if exp != REJECT else '') + before[3 * n:]
        else:                                # slice that changes the number of items
            r = attempt(arr.__setitem__, slice(1, 2), [one, v, one])
            want = before[:n] + o + (exp if exp != REJECT else '') + o + before[2 * n:]
        if exp == REJECT:
            require(is_raised(r, ValueError), 'out-of-range Array item must raise ValueError', got=r, case=case)
            require(arr.data.bin == before and len(arr) == 4, 'a rejected Array item assignment changed the Array (earlier items of the same call were already written)',
                    before=before[:64], after=arr.data.bin[:64], case=case)
        else:
            require(not is_raised(r), 'in-range Array item raised', got=r, case=case)
            require(arr.data.bin == want, 'Array item was not stored with its exact encoding', got=arr.data.bin[:96], expected=want[:96], case=case)
        return {'nt': nt, 'labels': [name, route, 'reject' if exp == REJECT else 'ok']}
    res, target = do_route(bs, route, name, n, pv, str(v), case['cls'])
    if exp == REJECT:
        require(is_raised(res, ValueError), 'out-of-range integer must raise CreationError (ValueError), never wrap or truncate', got=res if is_raised(res) else res.bin[:80], case=case)
        if target is not None:
            obj, orig = target if isinstance(target, tuple) else (target, '1011')
            require(obj.bin == orig, 'rejected assignment changed the target', got=obj.bin[:64], expected=orig[:64])
    else:
        require(not is_raised(res), 'in-range integer was rejected', got=res, case=case)
        require(len(res) == n and res.bin == exp, 'in-range integer does not have exactly the requested length/bits', got=res.bin[:96], expected=exp[:96], case=case)
    return {'nt': nt, 'labels': [name, route, 'reject' if exp == REJECT else 'ok']}


# ------------------------------------------------------------------------------------------- length validity

LEN_NAMES = ['uint', 'int', 'uintbe', 'intle', 'uintne', 'float', 'floatle', 'floatne', 'bfloat', 'bool', 'hex', 'oct', 'bin', 'bytes', 'bits', 'f', 'bfloatle']


def default_value(name, n):
    c = canon(name)
    if c in ('uint', 'int', 'uintbe', 'intbe', 'uintle', 'intle'):
        return 0
    if c in ('float', 'floatle', 'bfloat', 'bfloatle'):
        return 0.5
    if c == 'bool':
        return True
    return None


@st.composite
def length_case(draw, tier):
    name = draw(st.sampled_from(LEN_NAMES))
    n = draw(st.sampled_from([0, -1, -8, 1, 2, 3, 4, 6, 7, 8, 9, 12, 15, 16, 17, 20, 24, 31, 32, 33, 48, 63, 64, 65, 80, 128]))
    return {'name': name, 'n': n, 'route': draw(st.sampled_from(['kw_length', 'kw_name', 'token', 'pack', 'pack_kwlen', 'dtype_build', 'setattr_name'])), 'cls': draw(cls_st),
            'digits': draw(st.integers(0, 40)), 'seed': draw(st.integers(0, 10 ** 6)), 'vform': draw(st.sampled_from(['bytes', 'bytes', 'bytearray', 'memoryview', 'list']))}


def run_length(case):
    """value always representable; what varies is whether the stated length is legal for the type and agrees with the value's own size"""
    bs = bitstring_module()
    name, n, route = case['name'], case['n'], case['route']
    c = canon(name)
    if route in ('kw_name', 'token', 'pack', 'setattr_name') and n < 0:
        route = 'kw_length'
    unit = 8 if c == 'bytes' else 1
    nbits = n * unit   # the stated length in bits
    v = default_value(name, n)
    if v is None:
        # self-sizing types: value has its own size (digits), the stated length must agree with it
        k = case['digits']
        per = {'hex': 4, 'oct': 3, 'bin': 1, 'bits': 1, 'bytes': 8}[c]
        own = k * per
        raw = format(case['seed'] % (1 << max(own, 1)), f'0{max(own, 1)}b')[:own] if own else ''
        if c == 'bytes':
            v = to_bytes(raw)
            # the value may come as any bytes-like form (or a list of ints): same acceptance, same result
            v = {'bytearray': bytearray, 'memoryview': memoryview, 'list': list}.get(case.get('vform'), bytes)(v)
            text = None
        elif c == 'bits':
            v = bs.Bits(bin=raw)
            text = '0b' + raw if raw else None
        else:
            v = codecs.decode(c, raw)
            text = v
        legal = n >= 0 and own == nbits and codecs.valid_length(c, nbits)
        exp = raw if legal else REJECT
    else:
        text = str(v)
        legal = codecs.valid_length(c, nbits)
        exp = encode(name, v, nbits) if legal else REJECT
    if text is None and route == 'token':
        route = 'dtype_build'
    if c == 'bytes' and route == 'kw_length':
        route = 'kw_name'   # bytes= with length= is the documented truncation route (see source_windows)
        if n < 0:
            route = 'dtype_build'
    res, target = do_route(bs, route, name, n, v, text, case['cls'])
    if exp == REJECT:
        require(is_raised(res, ValueError), 'an illegal or disagreeing length must raise CreationError (ValueError)', got=res if is_raised(res) else f'{type(res).__name__} of {len(res)} bits', case=case, route=route)
        if target is not None:
            obj, orig = target if isinstance(target, tuple) else (target, '1011')
            require(obj.bin == orig, 'rejected assignment changed the target', got=obj.bin[:64])
    else:
        require(not is_raised(res), 'a legal length/value combination was rejected', got=res, case=case, route=route)
        require(len(res) == nbits and res.bin == exp, 'result does not have exactly the requested length/bits', got=res.bin[:96], expected=exp[:96], case=case)
    return {'nt': exp == REJECT or n not in (8, 16, 32, 64), 'labels': [name, route, 'reject' if exp == REJECT else 'ok']}


# ------------------------------------------------------------------------------------------- text digits

@st.composite
def text_case(draw, tier):
    name = draw(st.sampled_from(['hex', 'oct', 'bin', 'h', 'o', 'b']))
    c = canon(name)
    per = {'hex': 4, 'oct': 3, 'bin': 1}[c]
    k = draw(st.integers(1, 30))
    good = {'hex': '0123456789abcdefABCDEF', 'oct': '01234567', 'bin': '01'}[c]
    digits = draw(st.text(good, min_size=k, max_size=k))
    bad = None
    if draw(st.booleans()):
        badchars = {'hex': 'gGzx-+.', 'oct': '89a-+.', 'bin': '23a-+.'}[c]
        i = draw(st.integers(0, k - 1))
        bad = [i, draw(st.sampled_from(badchars))]
    return {'name': name, 'digits': digits, 'bad': bad, 'prefix': draw(st.booleans()), 'underscore': draw(st.booleans()),
            'route': draw(st.sampled_from(['kw', 'kw_name', 'token', 'token_len', 'setattr', 'pack', 'dtype_build', 'auto_literal'])), 'cls': draw(cls_st)}


def run_text(case):
    bs = bitstring_module()
    name, digits, bad = case['name'], case['digits'], case['bad']
    c = canon(name)
    per = {'hex': 4, 'oct': 3, 'bin': 1}[c]
    pre = {'hex': '0x', 'oct': '0o', 'bin': '0b'}[c]
    text = digits
    if bad:
        text = text[:bad[0]] + bad[1] + text[bad[0] + 1:]
        if bad[1] == 'x' and c == 'hex':
            bad = [bad[0], 'g']
            text = digits[:bad[0]] + 'g' + digits[bad[0] + 1:]
    if case['underscore'] and len(text) > 2:
        text = text[:1] + '_' + text[1:]
    n = len(digits) * per
    exp = REJECT if bad else codecs.encode(c, digits.lower(), n)
    cl = cls_of(case['cls'])
    route = case['route']
    full = pre + text if case['prefix'] or route == 'auto_literal' else text
    target = None
    if route == 'kw':
        res = attempt(lambda: cl(**{name: full}))
    elif route == 'kw_name':
        res = attempt(lambda: cl(**{f'{name}{n}': full}))
    elif route == 'token':
        res = attempt(lambda: cl(f'{name}={full}'))
    elif route == 'token_len':
        res = attempt(lambda: cl(f'{name}:{n}={full}'))
    elif route == 'setattr':
        target = bs.BitArray('0b1011')
        r = attempt(setattr, target, name, full)
        res = r if is_raised(r) else target
    elif route == 'pack':
        res = attempt(lambda: cl(bs.pack(name, full)))
    elif route == 'dtype_build':
        res = attempt(lambda: cl(bs.Dtype(name).build(full)))
    else:
        res = attempt(lambda: cl(full))
    if exp == REJECT:
        require(is_raised(res, ValueError), 'text with an invalid digit must raise CreationError (ValueError)', got=res if is_raised(res) else res.bin[:64], text=full, route=route)
        if target is not None:
            require(target.bin == '1011', 'rejected assignment changed the target')
    else:
        require(not is_raised(res), 'valid digits were rejected', got=res, text=full, route=route)
        require(res.bin == exp, 'digits were not encoded one digit per 4/3/1 bits', got=res.bin[:96], expected=exp[:96], text=full)
    return {'nt': True, 'labels': [name, route, 'reject' if bad else 'ok']}


# ------------------------------------------------------------------------------------------- source windows

SOURCES = ['bytes', 'bytearray', 'bitarray', 'BytesIO', 'filename', 'filehandle']


@st.composite
def window_case(draw, tier):
    kind = draw(st.sampled_from(SOURCES))
    nbytes = draw(st.integers(1, 12))
    data = draw(bits_of_len(8 * nbytes))
    if kind == 'bitarray' and draw(st.booleans()):
        data = data[:len(data) - draw(st.integers(0, 7))]
    total = len(data)
    off = draw(st.sampled_from([None, 0, 1, 7, 8, 9, total - 1, total, total + 1, total + 8, -1, -8]) | st.integers(0, total))
    ln = draw(st.sampled_from([None, 0, 1, 8, total, total + 1, -1]) | st.integers(0, total))
    if draw(st.booleans()) and isinstance(off, int) and off >= 0:
        ln = draw(st.sampled_from([total - off, total - off + 1, total - off - 1, None]))
    return {'kind': kind, 'data': data, 'offset': off, 'length': ln, 'cls': draw(cls_st)}


def run_window(case):
    bs = bitstring_module()
    import bitarray
    kind, data, off, ln = case['kind'], case['data'], case['offset'], case['length']
    total = len(data)
    o = 0 if off is None else off
    if o < 0 or (ln is not None and ln < 0) or o > total or (ln is not None and o + ln > total):
        exp = REJECT
    else:
        exp = data[o:] if ln is None else data[o:o + ln]
    c = cls_of(case['cls'])
    kw = {}
    if off is not None:
        kw['offset'] = off
    if ln is not None:
        kw['length'] = ln
    with files.TempDir() as tmp:
        if kind == 'bytes':
            res = attempt(lambda: c(bytes=to_bytes(data), **kw))
        elif kind == 'bytearray':
            res = attempt(lambda: c(bytes=bytearray(to_bytes(data)), **kw))
        elif kind == 'bitarray':
            res = attempt(lambda: c(bitarray=bitarray.bitarray(data), **kw))
        elif kind == 'BytesIO':
            res = attempt(lambda: c(io.BytesIO(to_bytes(data)), **kw))
        elif kind == 'filename':
            p = tmp.new(to_bytes(data))
            res = attempt(lambda: c(filename=p, **kw))
        else:
            p = tmp.new(to_bytes(data))
            with open(p, 'rb') as fh:
                res = attempt(lambda: c(fh, **kw))
        if exp == REJECT:
            require(is_raised(res, ValueError), 'an offset/length outside the supplied data (or negative) must raise CreationError (ValueError)',
                    got=res if is_raised(res) else f'{len(res)} bits: {res.bin[:40]}', kind=kind, offset=off, length=ln, total=total)
        else:
            require(not is_raised(res), 'a window inside the data was rejected', got=res, kind=kind, offset=off, length=ln, total=total)
            require(res.bin == exp and len(res) == len(exp), 'window content differs', got=res.bin[:80], expected=exp[:80], kind=kind, offset=off, length=ln)
        del res
    touching = exp != REJECT and (ln is None or o + ln == total)
    return {'nt': exp == REJECT or touching, 'labels': [kind, 'reject' if exp == REJECT else 'ok', 'off=None' if off is None else ('off<0' if off < 0 else 'off>=0')]}


def selftest():
    assert fits_int('uint', 8, 255) == '11111111' and fits_int('uint', 8, 256) == REJECT and fits_int('int', 8, -129) == REJECT
    assert fits_int('uintle', 12, 1) == REJECT and fits_int('int', 1, -1) == '1' and fits_int('int', 1, 1) == REJECT


BOOL_VALUES = [0, 1, True, False, 2, -1, 255, 3, -2, 256, 10 ** 20]
BOOL_ROUTES = ['kw', 'token', 'pack', 'pack_kw', 'dtype_build', 'setattr', 'array_init', 'array_init_tuple', 'array_init_iter', 'array_extend', 'array_extend_iter', 'array_append', 'array_insert',
               'array_setitem', 'array_slice', 'array_slice_step']


def enum_bool(tier):
    for v in range(len(BOOL_VALUES)):
        for r in BOOL_ROUTES:
            for pos in (0, 1, 2):
                yield {'v': v, 'route': r, 'pos': pos}


def run_bool(case):
    """bool is the one-bit integer: 0 / 1 / False / True fit, every other integer is rejected through every route, and a rejected value changes nothing"""
    bs = bitstring_module()
    v, route, pos = BOOL_VALUES[case['v']], case['route'], case['pos']
    fits = v in (0, 1)
    others = [1, 0, 1]
    seq = others[:pos] + [v] + others[pos:]            # the value under test among good ones, at the front, in the middle or at the end
    expbits = ''.join('1' if x else '0' for x in seq)
    if not route.startswith('array_'):
        if route == 'kw':
            r = attempt(lambda: bs.Bits(bool=v))
        elif route == 'token':
            r = attempt(lambda: bs.Bits(f'bool={v}'))
        elif route == 'pack':
            r = attempt(lambda: bs.pack('bool', v))
        elif route == 'pack_kw':
            r = attempt(lambda: bs.pack('bool=x', x=v))
        elif route == 'dtype_build':
            r = attempt(lambda: bs.Dtype('bool').build(v))
        else:
            a = bs.BitArray('0b101')
            r = attempt(setattr, a, 'bool', v)
            if not fits:
                require(a.bin == '101', 'a rejected assignment changed the target', got=a.bin)
            r = a if not is_raised(r) else r
        if fits:
            require(not is_raised(r) and r.bin == ('1' if v else '0'), 'bool value 0/1 must give the single bit', got=r, v=v, route=route)
        else:
            require(is_raised(r, ValueError), 'an integer other than 0/1 does not fit a bool and must be rejected', got=r if is_raised(r) else r.bin, v=v, route=route)
        return {'nt': not fits, 'labels': [route]}
    arr = bs.Array('bool', [1, 0, 1])
    before = arr.data.bin
    if route == 'array_init':
        r = attempt(bs.Array, 'bool', seq)
        want = expbits
    elif route == 'array_init_tuple':
        r = attempt(bs.Array, 'bool', tuple(seq))
        want = expbits
    elif route == 'array_init_iter':
        r = attempt(bs.Array, 'bool', iter(seq))
        want = expbits
    elif route == 'array_extend':
        r = attempt(arr.extend, seq)
        want = before + expbits
    elif route == 'array_extend_iter':
        r = attempt(arr.extend, (x for x in seq))
        want = before + expbits
    elif route == 'array_append':
        r = attempt(arr.append, v)
        want = before + ('1' if v else '0')
    elif route == 'array_insert':
        r = attempt(arr.insert, pos, v)
        want = before[:pos] + ('1' if v else '0') + before[pos:]
    elif route == 'array_setitem':
        r = attempt(arr.__setitem__, pos, v)
        want = before[:pos] + ('1' if v else '0') + before[pos + 1:]
    elif route == 'array_slice':
        r = attempt(arr.__setitem__, slice(0, 2), seq)
        want = expbits + before[2:]
    else:
        r = attempt(arr.__setitem__, slice(0, 3, 2), [1, v])
        want = '1' + before[1] + ('1' if v else '0')
    if fits:
        require(not is_raised(r), 'bool items 0/1 must be accepted', got=r, route=route)
        got = r.data.bin if route.startswith('array_init') else arr.data.bin
        require(got == want, 'bool items were not stored as their single bits', got=got, expected=want, route=route)
    else:
        require(is_raised(r, ValueError), 'an integer other than 0/1 does not fit a bool item and must be rejected', got=r if is_raised(r) else r, v=v, route=route, seq=seq)
        if not route.startswith('array_init') and not route.startswith('array_extend'):
            require(arr.data.bin == before, 'a rejected bool item changed the Array', got=arr.data.bin, expected=before, route=route)
    return {'nt': not fits, 'labels': [route]}


def enum_limits(tier):
    """complete grid: every integer dtype x every width 1..130 (whole bytes to 136 for the endian forms) x the eight values around the two limits;
    the route rotates with the cell in quick and is every route in thorough"""
    k = 0
    for name in INT_NAMES:
        widths = range(1, 131) if canon(name) in ('uint', 'int') else range(8, 137, 8)
        for n in widths:
            lo, hi = codecs.int_range(name, n)
            for v in (lo - 2, lo - 1, lo, lo + 1, hi - 1, hi, hi + 1, hi + 2):
                k += 1
                routes = ROUTES if tier == 'thorough' else [ROUTES[k % len(ROUTES)]]
                for route in routes:
                    yield {'name': name, 'n': n, 'v': v, 'route': route, 'cls': CLASSES4[k % 4], 'as_str': False, 'prelude': []}


CLASSES4 = ['Bits', 'BitArray', 'ConstBitStream', 'BitStream']

# ------------------------------------------------------------------------------------------- bare-name assignment: the object's own length is the stated length

BARE_NAMES = ['uint', 'int', 'u', 'i', 'float', 'floatbe', 'floatle', 'floatne', 'f']
BARE_VALUES = {'uint': [0, 1], 'int': [0, -1], 'float': [0.5, -2.0], 'floatle': [0.5, -2.0]}


def enum_bare(tier):
    widths = list(range(0, 137)) if tier != 'quick' else list(range(0, 70)) + [72, 79, 80, 96, 127, 128, 129, 136]
    for name in BARE_NAMES:
        for n in widths:
            for k, cls in enumerate(MUTABLE):
                yield {'name': name, 'n': n, 'cls': cls, 'vi': (n + k) % 2}


def run_bare(case):
    """x.float = v / x.uint = v on an existing n-bit object: the value takes the object's length; a length the type does not allow is refused and x keeps its bits"""
    bs = bitstring_module()
    name, n = case['name'], case['n']
    c = canon(name)
    key = 'floatle' if (c == 'floatle' or (c == 'floatne' and sys.byteorder == 'little')) else ('float' if c in ('float', 'floatbe', 'floatne') else c)
    v = BARE_VALUES[key][case['vi']]
    before = format((0x5a5a5a5a5a5a5a5a5a5a5a5a5a5a5a5a5a5a >> 3) & ((1 << n) - 1), f'0{n}b') if n else ''
    x = mk(case['cls'], before)
    legal = codecs.valid_length(key, n)
    if legal and key in ('uint', 'int'):
        lo, hi = codecs.int_range(key, n)
        legal = lo <= v <= hi
    r = attempt(setattr, x, name, v)
    if not legal:
        require(is_raised(r, ValueError), 'assignment through a bare type name on an object whose length the type does not allow must raise CreationError (ValueError)',
                got=r if is_raised(r) else f'accepted, now {len(x)} bits', case=case)
        require(x.bin == before, 'a rejected property assignment changed the object', got=x.bin[:80], before=before[:80], case=case)
    else:
        require(not is_raised(r), 'assignment of a representable value through a bare type name was rejected', got=r, case=case)
        exp = codecs.encode(key, v, n)
        require(x.bin == exp, 'assignment through a bare type name does not give the value at the length of the object', got=x.bin[:80], expected=exp[:80], case=case)
    return {'nt': n not in (16, 32, 64) or key in ('uint', 'int'), 'labels': [name, 'reject' if not legal else 'ok']}


SUBCHECKS = [
    Sub('C15.bool_values', run_bool, enum=enum_bool,
        enum_exhaustive_note='11 integers (0, 1, True, False and 7 that do not fit one bit) x 16 routes (constructor keyword, token, pack x2, Dtype.build, property assignment, Array init from list / tuple / '
                             'iterator, extend from list / generator, append, insert, item, slice and extended slice assignment) x 3 positions among good values'),
    Sub('C15.limits_grid', run_int, enum=enum_limits,
        enum_exhaustive_note='every integer dtype name x every width 1..130 (uint/int) or every whole-byte width 8..136 (endian forms) x {lo-2..lo+1, hi-1..hi+2}; one rotating route per cell (quick) / all 17 routes (thorough)'),
    Sub('C15.assign_bare_name', run_bare, enum=enum_bare,
        enum_exhaustive_note='uint/int/u/i/float/floatbe/floatle/floatne/f x every object length 0..136 (quick: 0..69 and 8 larger) x BitArray/BitStream, two values alternating'),
    Sub('C15.int_ranges', run_int, strategy=int_case, examples={'quick': 20000, 'thorough': 300000}, ambient=('bytealigned',)),
    Sub('C15.length_validity', run_length, strategy=length_case, examples={'quick': 10000, 'thorough': 150000}, ambient=('bytealigned',)),
    Sub('C15.text_digits', run_text, strategy=text_case, examples={'quick': 8000, 'thorough': 100000}, ambient=('bytealigned',)),
    Sub('C15.source_windows', run_window, strategy=window_case, examples={'quick': 8000, 'thorough': 100000}, ambient=('bytealigned',)),
]
