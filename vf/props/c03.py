"""C03 - in-place mutations equal their sequence-level specification; nothing else moves.

A case is (class, initial content, list of mutating steps). Positions/windows are stored as state-independent specs and
resolved against the current model length inside the interpreter, so every generated sequence is meaningful and a saved
case replays without Hypothesis. The model is a Python str of bits; each operation has a small pure function returning the
set of acceptable outcomes (content, return value, raised?)."""
import operator

from hypothesis import strategies as st

from vf.engine import Sub, require, bitstring_module, Violation
from vf.common import (bits_st, bits_of_len, mcls_st, mk, attempt, is_raised, lenbucket, CLASSES, MUTABLE, make_promotable, promo_ok,
                       norm_window)
from vf.props.c07 import all_matches, greedy

RULE = ("case = (BitArray|BitStream, prior content, 1..N mutating steps with position/window specs resolved against the current length); "
        "after every step s.bin, len and the return value must be one of the model's acceptable outcomes, and after a raising call the "
        "content must be unchanged (iterable-position ops: some prefix of the valid positions applied). Non-trivial = non-empty prior content "
        "and (content changed, or the call raised, or a window strictly inside the content was used); sequences: >= 3 successful mutators of "
        ">= 2 kinds. distinct = SHA-1 of the case.")
ASSUMPTIONS = ["'raises' means any exception here; the exception class is judged by C20",
               "zero-width rotate window, integer assigned to an empty slice, set()/invert() on an empty bitstring, empty operand with an invalid position: "
               "either an exception or a no-op is accepted (the statement is silent), content unchanged either way",
               "integer assigned to a slice with step -1: an exception, or the value laid down in slice order, are both accepted",
               "msb0 only (lsb0 is C12)"]

ANY = '<any>'
MAX_LEN = 6000


class _Self:
    pass


SELF = _Self()


# ---------------------------------------------------------------------------------------------
# spec resolution

def rpos(spec, n):
    t = spec[0]
    if t == 'n':
        return None
    if t == 'b':
        return [0, 1, n - 1, n, n + 1, -1, -n, -n - 1, n // 2, -(n // 2), 8 * (n // 16), n - 8 if n >= 8 else 0][spec[1] % 12]
    if t == 'in':   # valid index in [0, n)
        return spec[1] % n if n else 0
    if t == 'ins':  # valid insert position in [0, n]
        return spec[1] % (n + 1)
    return spec[1] % (2 * n + 7) - n - 3


def rwin(spec, n):
    if spec[0] == 'a8':   # whole-byte window: start and end multiples of 8 (fast paths for aligned ranges)
        s = 8 * (spec[1] % (n // 8 + 1))
        e = s + 8 * (spec[2] % ((n - s) // 8 + 1))
        return (None if s == 0 and spec[3] % 3 == 0 else s), (None if e == n and spec[3] % 2 == 0 else e)
    if spec[0] == 'w':
        s = spec[1] % (n + 1)
        e = s + spec[2] % (n - s + 1)
        m = spec[3] % 8
        rs, re_ = s, e
        if m == 0:
            rs = None if s == 0 else s
        elif m == 1 and s - n < 0:
            rs = s - n
        if m == 2 and e == n:
            re_ = None
        elif m == 3 and e - n < 0:
            re_ = e - n
        elif m == 4 and s == 0 and e == n:
            rs = re_ = None
        return rs, re_
    return rpos(spec[1], n), rpos(spec[2], n)


def roperand(spec, m):
    """-> (bits, python object to pass)"""
    t = spec[0]
    if t == 'self':
        return m, SELF
    if t == 'bits':
        return spec[1], mk('Bits', spec[1])
    if t == 'cls':
        return spec[2], mk(spec[1], spec[2])
    if t == 'promo':
        if promo_ok(spec[1], spec[2]):
            return spec[2], make_promotable(spec[1], spec[2])
        return spec[2], mk('Bits', spec[2])
    if t == 'samelen':
        b = (spec[1] * (len(m) // max(1, len(spec[1])) + 1))[:len(m)] if spec[1] else '0' * len(m)
        return b, mk('BitArray', b)
    raise AssertionError(spec)


# ---------------------------------------------------------------------------------------------
# model: returns list of acceptable (content, return, raised)

def twos(v, L):
    return format(v & ((1 << L) - 1), f'0{L}b')


def swap_groups(m, s, sizes):
    """byte-reverse consecutive groups of sizes bytes starting at bit s"""
    l = m
    p = s
    for z in sizes:
        e = p + 8 * z
        seg = l[p:e]
        by = [seg[i:i + 8] for i in range(0, len(seg), 8)]
        l = l[:p] + ''.join(reversed(by)) + l[e:]
        p = e
    return l


PACK_SIZE = {'b': 1, 'B': 1, 'h': 2, 'H': 2, 'l': 4, 'L': 4, 'i': 4, 'I': 4, 'q': 8, 'Q': 8, 'e': 2, 'f': 4, 'd': 8}


def parse_struct_fmt(f):
    """sizes for a compact struct string (optional endianness char), or None if malformed."""
    import re
    mm = re.fullmatch(r'[<>@=]?((?:\d*[bBhHlLiIqQefd])+)', f)
    if not mm:
        return None
    out = []
    for cnt, code in re.findall(r'(\d*)([bBhHlLiIqQefd])', mm.group(1)):
        out.extend([PACK_SIZE[code]] * (int(cnt) if cnt else 1))
    return out


def model(m, op, r):
    """m: current bits; op: step dict; r: resolved args dict"""
    n = len(m)
    name = op['op']

    def ok(c, ret=None):
        return [(c, ret, False)]

    def err(c=None):
        return [(m if c is None else c, ANY, True)]

    if name in ('append', 'iadd'):
        return ok(m + r['v'])
    if name == 'prepend':
        return ok(r['v'] + m)
    if name in ('insert', 'overwrite'):
        v, p = r['v'], r['pos']
        pp = p + n if p < 0 else p
        valid = 0 <= pp <= n
        if v == '':
            return ok(m) if valid else ok(m) + err()
        if not valid:
            return err()
        return ok(m[:pp] + v + (m[pp:] if name == 'insert' else m[pp + len(v):]))
    if name == 'del_int':
        i = r['i']
        if not -n <= i < n:
            return err()
        l = list(m)
        del l[i]
        return ok(''.join(l))
    if name == 'del_slice':
        a, b, c = r['slice']
        if c == 0:
            return err()
        l = list(m)
        del l[a:b:c]
        return ok(''.join(l))
    if name == 'set_int_int':
        i, val = r['i'], op['val']
        if not -n <= i < n or val not in (0, 1, -1):
            return err()
        l = list(m)
        l[i] = '1' if val else '0'
        return ok(''.join(l))
    if name == 'set_int_bits':
        i, v = r['i'], r['v']
        if not -n <= i < n:
            return err()
        ii = i + n if i < 0 else i
        return ok(m[:ii] + v + m[ii + 1:])
    if name == 'set_slice_bits':
        a, b, c = r['slice']
        if c == 0:
            return err()
        l = list(m)
        try:
            l[a:b:c] = list(r['v'])
        except ValueError:
            return err()
        return ok(''.join(l))
    if name == 'set_slice_int':
        a, b, c = r['slice']
        val = op['val']
        if c == 0:
            return err()
        if c in (None, 1):
            idx = range(*slice(a, b, None).indices(n))
            L = len(idx)
            if L == 0:
                return ok(m) + err()
            if (val >= 0 and val >= (1 << L)) or (val < 0 and val < -(1 << (L - 1))):
                return err()
            enc = twos(val, L)
            l = list(m)
            l[a:b] = list(enc)
            return ok(''.join(l))
        if c == -1:
            idx = list(range(*slice(a, b, -1).indices(n)))
            L = len(idx)
            outs = err()
            if L and not ((val >= 0 and val >= (1 << L)) or (val < 0 and val < -(1 << (L - 1)))):
                enc = twos(val, L)
                l = list(m)
                for k, i in enumerate(idx):
                    l[i] = enc[k]
                outs += ok(''.join(l))
            return outs
        if val not in (0, 1):
            return err()
        l = list(m)
        for i in range(*slice(a, b, c).indices(n)):
            l[i] = str(val)
        return ok(''.join(l))
    if name == 'replace':
        old, new = r['old'], r['new']
        count = op['count']
        win = norm_window(r['start'], r['end'], n)
        if count == 0:
            return ok(m, 0) + (err() if (old == '' or win is None) else [])
        if old == '' or win is None:
            return err()
        aligned = bool(r.get('_opt_ba')) if op['ba'] is None else bool(op['ba'])
        ms = greedy(all_matches(m, old, win[0], win[1], aligned), len(old))
        if count is not None:
            ms = ms[:count]
        out, prev = [], 0
        for p in ms:
            out.append(m[prev:p])
            out.append(new)
            prev = p + len(old)
        out.append(m[prev:])
        return ok(''.join(out), len(ms))
    if name == 'reverse':
        win = norm_window(r['start'], r['end'], n)
        if win is None:
            return err()
        s, e = win
        return ok(m[:s] + m[s:e][::-1] + m[e:])
    if name in ('rol', 'ror'):
        k = op['bits']
        win = norm_window(r['start'], r['end'], n)
        if n == 0 or k < 0 or win is None:
            return err()
        s, e = win
        w = e - s
        if w == 0:
            return ok(m) + err()
        k %= w
        seg = m[s:e]
        seg = seg[k:] + seg[:k] if name == 'rol' else (seg[-k:] + seg[:-k] if k else seg)
        return ok(m[:s] + seg + m[e:])
    if name in ('set', 'invert'):
        val = '1' if op.get('val') else '0'
        pos = r['pos']

        def one(l, i):
            l[i] = val if name == 'set' else ('1' if l[i] == '0' else '0')
        if pos is None:
            if n == 0:
                return ok(m) + err()
            if name == 'set':
                return ok(val * n)
            return ok(''.join('1' if c == '0' else '0' for c in m))
        if isinstance(pos, int):
            if not -n <= pos < n:
                return err()
            l = list(m)
            one(l, pos)
            return ok(''.join(l))
        l = list(m)
        states = [m]
        for p in pos:
            if not -n <= p < n:
                return [(sx, ANY, True) for sx in states]
            one(l, p)
            states.append(''.join(l))
        return ok(''.join(l))
    if name == 'byteswap':
        win = norm_window(r['start'], r['end'], n)
        fmt = op['fmt']
        if win is None:
            return err()
        s, e = win
        if fmt is None or (isinstance(fmt, int) and fmt == 0):
            sizes = [(e - s) // 8]
        elif isinstance(fmt, int):
            if fmt < 0:
                return err()
            sizes = [fmt]
        elif isinstance(fmt, str):
            sizes = parse_struct_fmt(fmt)
            if sizes is None:
                return err()
        else:
            sizes = list(fmt)
            if any(z < 0 for z in sizes):
                return err()
        total = 8 * sum(sizes)
        if total == 0:
            return ok(m, 0)
        reps = (e - s) // total if op['repeat'] else (1 if s + total <= e else 0)
        cur = m
        for k in range(reps):
            cur = swap_groups(cur, s + k * total, sizes)
        return ok(cur, reps)
    if name in ('ilshift', 'irshift'):
        k = op['n']
        if k < 0 or n == 0:
            return err()
        k = min(k, n)
        return ok(m[k:] + '0' * k if name == 'ilshift' else '0' * k + m[:n - k])
    if name == 'imul':
        k = op['n']
        if k < 0:
            return err()
        return ok(m * k)
    if name in ('iand', 'ior', 'ixor'):
        v = r['v']
        if len(v) != n:
            return err()
        f = {'iand': lambda x, y: x & y, 'ior': lambda x, y: x | y, 'ixor': lambda x, y: x ^ y}[name]
        return ok(''.join(str(f(int(x), int(y))) for x, y in zip(m, v)))
    if name == 'clear':
        return ok('')
    raise AssertionError(name)


# ---------------------------------------------------------------------------------------------
# implementation side

def resolve(op, m):
    n = len(m)
    r = {}
    objs = {}
    for key in ('v', 'old', 'new'):
        if key in op:
            r[key], objs[key] = roperand(op[key], m)
    if 'pos' in op:
        p = op['pos']
        if p[0] == 'list':
            r['pos'] = [rpos(x, n) for x in p[2]]
            r['pos_kind'] = p[1]
        elif p[0] == 'range':
            a, b, c = rpos(p[1], n), rpos(p[2], n), p[3]
            r['pos'] = range(a if a is not None else 0, b if b is not None else n, c)
            r['pos_kind'] = 'range'
        else:
            r['pos'] = rpos(p, n)
    if 'i' in op:
        r['i'] = rpos(op['i'], n)
    if 'slice' in op:
        s = op['slice']
        if s[0] == 'w':
            a, b = rwin(s, n)
            r['slice'] = (a, b, s[4])
        else:
            r['slice'] = (rpos(s[1], n), rpos(s[2], n), s[3])
    if 'win' in op:
        r['start'], r['end'] = rwin(op['win'], n)
    return r, objs


def call_impl(x, op, r, objs):
    name = op['op']

    def o(key):
        return x if objs[key] is SELF else objs[key]
    if name == 'append':
        return x.append(o('v'))
    if name == 'iadd':
        y = operator.iadd(x, o('v'))
        require(y is x, '+= rebound the object')
        return None
    if name == 'prepend':
        return x.prepend(o('v'))
    if name == 'insert':
        return x.insert(o('v'), r['pos'])
    if name == 'overwrite':
        return x.overwrite(o('v'), r['pos'])
    if name == 'del_int':
        del x[r['i']]
        return None
    if name == 'del_slice':
        a, b, c = r['slice']
        del x[a:b:c]
        return None
    if name == 'set_int_int':
        x[r['i']] = op['val'] if not op.get('as_bool') else bool(op['val'])
        return None
    if name == 'set_int_bits':
        x[r['i']] = o('v')
        return None
    if name == 'set_slice_bits':
        a, b, c = r['slice']
        x[a:b:c] = o('v')
        return None
    if name == 'set_slice_int':
        a, b, c = r['slice']
        x[a:b:c] = op['val']
        return None
    if name == 'replace':
        kw = {}
        if op['ba'] is not None:
            kw['bytealigned'] = op['ba']
        return x.replace(o('old'), o('new'), r['start'], r['end'], op['count'], **kw)
    if name == 'reverse':
        return x.reverse(r['start'], r['end'])
    if name in ('rol', 'ror'):
        return getattr(x, name)(op['bits'], r['start'], r['end'])
    if name in ('set', 'invert'):
        pos = r['pos']
        k = r.get('pos_kind')
        if k == 'tuple':
            pos = tuple(pos)
        elif k == 'gen':
            pos = (p for p in pos)
        if name == 'set':
            return x.set(op['val']) if pos is None and op.get('omit') else x.set(op['val'], pos)
        return x.invert() if pos is None and op.get('omit') else x.invert(pos)
    if name == 'byteswap':
        fmt = op['fmt']
        if op.get('fmt_tuple') and isinstance(fmt, list):
            fmt = tuple(fmt)
        return x.byteswap(fmt, r['start'], r['end'], op['repeat'])
    if name in ('ilshift', 'irshift', 'imul'):
        y = getattr(operator, name)(x, op['n'])
        require(y is x, f'{name} rebound the object')
        return None
    if name in ('iand', 'ior', 'ixor'):
        y = getattr(operator, name)(x, o('v'))
        require(y is x, f'{name} rebound the object')
        return None
    if name == 'clear':
        return x.clear()
    raise AssertionError(name)


def run(case):
    bs = bitstring_module()
    m = case['init']
    x = mk(case['cls'], m)
    changed_kinds = set()
    successes = 0
    nt_single = False
    labels = []
    opt_ba = bool(case.get('opt_ba'))
    bs.options.bytealigned = opt_ba
    for k, op in enumerate(case['steps']):
        if len(m) > MAX_LEN:
            break   # self-appends / repeats grow exponentially; the rest of such a sequence adds nothing
        r, objs = resolve(op, m)
        r['_opt_ba'] = opt_ba
        outs = model(m, op, r)
        res = attempt(call_impl, x, op, r, objs)
        if is_raised(res) and isinstance(res.exc, Violation):
            raise res.exc
        got = x.bin
        raised = is_raised(res)
        require(len(x) == len(got), 'len() disagrees with len(bin)', step=k, op=op)
        match = None
        for c, ret, rz in outs:
            if rz != raised or c != got:
                continue
            if not rz and ret != ANY and res != ret:
                continue
            match = (c, ret, rz)
            break
        if match is None:
            exp = [(c[:80], ret, 'raises' if rz else 'returns') for c, ret, rz in outs[:3]]
            raise Violation(f"step {k} {op['op']}: outcome not allowed by the model | before={m[:80]!r} (len {len(m)}) resolved={ {kk: (vv if not isinstance(vv, str) else vv[:40]) for kk, vv in r.items()} } "
                            f"got content={got[:80]!r} (len {len(got)}) result={res!r} | allowed={exp} | op={op}")
        if raised:
            nt_single = nt_single or bool(m)
            labels.append(op['op'] + ':raise')
        else:
            successes += 1
            if got != m:
                changed_kinds.add(op['op'])
                nt_single = nt_single or bool(m)
            if 'win' in op and m:
                w = norm_window(r['start'], r['end'], len(m))
                if w and w != (0, len(m)):
                    nt_single = True
            labels.append(op['op'])
        m = got
    if len(case['steps']) > 2:
        nt = bool(case['init']) and successes >= 3 and len(changed_kinds) >= 2
    else:
        nt = nt_single
    return {'nt': nt, 'labels': labels[:6] + [case['cls']]}


# ---------------------------------------------------------------------------------------------
# generators

raw = st.integers(0, 10 ** 6)


@st.composite
def pos_spec(draw):
    k = draw(st.integers(0, 9))
    if k < 4:
        return ['b', draw(st.integers(0, 11))]
    if k < 7:
        return ['in', draw(raw)]
    if k < 8:
        return ['ins', draw(raw)]
    return ['u', draw(raw)]


@st.composite
def win_spec(draw):
    if draw(st.integers(0, 6)) == 0:
        return ['a8', draw(raw), draw(raw), draw(st.integers(0, 5))]
    if draw(st.integers(0, 5)) == 0:
        a = draw(pos_spec()) if draw(st.integers(0, 3)) else ['n']
        b = draw(pos_spec()) if draw(st.integers(0, 3)) else ['n']
        return ['p', a, b]
    return ['w', draw(raw), draw(raw), draw(raw)]


@st.composite
def slice_spec(draw):
    step = draw(st.sampled_from([None, None, 1, 1, 2, 3, 7, 8, -1, -1, -2, -3, -8, 0]))
    if draw(st.integers(0, 2)) == 0:
        a = draw(pos_spec()) if draw(st.integers(0, 3)) else ['n']
        b = draw(pos_spec()) if draw(st.integers(0, 3)) else ['n']
        return ['p', a, b, step]
    return ['w', draw(raw), draw(raw), draw(raw), step]


@st.composite
def operand_spec(draw, max_len=24, allow_self=True):
    k = draw(st.integers(0, 11))
    bits = draw(bits_st(max_len=max_len))
    if k == 0 and allow_self:
        return ['self']
    if k == 1:
        return ['cls', draw(st.sampled_from(CLASSES)), bits]
    if k == 2:
        return ['promo', draw(st.sampled_from(['str_bin', 'bytes', 'list', 'bitarray', 'tuple', 'bytearray'])), bits]
    return ['bits', bits]


FAMILIES = {
    'insert_overwrite': ['append', 'prepend', 'insert', 'overwrite', 'iadd'],
    'setitem_delitem': ['del_int', 'del_slice', 'set_int_int', 'set_int_bits', 'set_slice_bits'],
    'slice_assign_int': ['set_slice_int'],
    'replace': ['replace'],
    'reverse_rotate': ['reverse', 'rol', 'ror'],
    'set_invert': ['set', 'invert'],
    'byteswap': ['byteswap'],
    'shift_mul_logic': ['ilshift', 'irshift', 'imul', 'iand', 'ior', 'ixor', 'clear'],
}
ALL_OPS = [o for f in FAMILIES.values() for o in f]


@st.composite
def op_st(draw, names):
    name = draw(st.sampled_from(names))
    op = {'op': name}
    if name in ('append', 'prepend', 'iadd'):
        op['v'] = draw(operand_spec())
    elif name in ('insert', 'overwrite'):
        op['v'] = draw(operand_spec())
        op['pos'] = draw(pos_spec())
    elif name == 'del_int':
        op['i'] = draw(pos_spec())
    elif name == 'del_slice':
        op['slice'] = draw(slice_spec())
    elif name == 'set_int_int':
        op['i'] = draw(pos_spec())
        op['val'] = draw(st.sampled_from([0, 1, 1, 0, -1, 2, -2, 255]))
        op['as_bool'] = draw(st.booleans()) and op['val'] in (0, 1)
    elif name == 'set_int_bits':
        op['i'] = draw(pos_spec())
        op['v'] = draw(operand_spec(max_len=9))
    elif name == 'set_slice_bits':
        op['slice'] = draw(slice_spec())
        op['v'] = draw(operand_spec(max_len=12))
    elif name == 'set_slice_int':
        op['slice'] = draw(slice_spec())
        kk = draw(st.integers(0, 9))
        if kk < 3:
            op['val'] = draw(st.sampled_from([0, 1, -1, 2, -2]))
        else:
            e = draw(st.integers(0, 40))
            op['val'] = draw(st.sampled_from([(1 << e) - 1, 1 << e, -(1 << e), -(1 << e) - 1, (1 << e) + 1])) if kk < 8 else draw(st.integers(-(1 << 40), 1 << 40))
    elif name == 'replace':
        op['old'] = draw(operand_spec(max_len=8))
        if draw(st.integers(0, 3)):
            op['old'] = ['bits', draw(bits_st(max_len=4, min_len=1))]
        op['new'] = draw(operand_spec(max_len=10))
        op['win'] = draw(win_spec()) if draw(st.booleans()) else ['p', ['n'], ['n']]
        op['count'] = draw(st.sampled_from([None, None, None, 0, 1, 2, 5]))
        op['ba'] = draw(st.sampled_from([None, None, False, True]))
    elif name == 'reverse':
        op['win'] = draw(win_spec())
    elif name in ('rol', 'ror'):
        op['bits'] = draw(st.sampled_from([0, 1, 2, 3, 7, 8, 9, 63, 64, 65, -1, 1000, 2 ** 31 + 1, 2 ** 63 + 5, 2 ** 64 + 3, 2 ** 100 + 7, -2 ** 64]) | st.integers(-2, 300))
        op['win'] = draw(win_spec()) if draw(st.booleans()) else ['p', ['n'], ['n']]
    elif name in ('set', 'invert'):
        if name == 'set':
            op['val'] = draw(st.sampled_from([0, 1, True, False, 2, -1, '', 'x']))
        k = draw(st.integers(0, 9))
        if k == 0:
            op['pos'] = ['n']
            op['omit'] = draw(st.booleans())
        elif k < 4:
            op['pos'] = draw(pos_spec())
        elif k < 7:
            op['pos'] = ['list', draw(st.sampled_from(['list', 'tuple', 'gen'])), draw(st.lists(pos_spec(), max_size=8))]
        else:
            op['pos'] = ['range', draw(pos_spec()) if draw(st.integers(0, 3)) else ['b', 0], draw(pos_spec()) if draw(st.integers(0, 3)) else ['b', 3],
                         draw(st.sampled_from([1, 1, 2, 3, 8, -1, -2, -3]))]
    elif name == 'byteswap':
        k = draw(st.integers(0, 9))
        if k == 0:
            op['fmt'] = None
        elif k == 1:
            op['fmt'] = 0
        elif k < 5:
            op['fmt'] = draw(st.sampled_from([1, 2, 3, 4, 8, -1, 100]))
        elif k < 8:
            op['fmt'] = draw(st.lists(st.sampled_from([0, 1, 1, 2, 3, 4, -1]), min_size=0, max_size=4))
            op['fmt_tuple'] = draw(st.booleans())
        else:
            op['fmt'] = draw(st.sampled_from(['h', 'H', '2h', 'bh', '<l', '>q', 'bhl', '3b', '=hh', '@e', 'f', 'd', 'x', '', 'h2', '2', '<', '1b1h']))
        op['win'] = draw(win_spec()) if draw(st.integers(0, 2)) else ['p', ['n'], ['n']]
        op['repeat'] = draw(st.sampled_from([True, True, False]))
    elif name in ('ilshift', 'irshift'):
        op['n'] = draw(st.sampled_from([0, 1, 2, 7, 8, 9, 63, 64, 65, -1, 10000, 2 ** 31, 2 ** 63, 2 ** 64 + 1, 2 ** 100, -2 ** 64]) | st.integers(-2, 300))
    elif name == 'imul':
        op['n'] = draw(st.sampled_from([0, 1, 2, 3, 4, 5, 7, 8, 9, -1]))
    elif name in ('iand', 'ior', 'ixor'):
        k = draw(st.integers(0, 9))
        op['v'] = ['self'] if k == 0 else (draw(operand_spec(allow_self=False)) if k == 1 else ['samelen', draw(bits_st(max_len=16))])
    return op


BIG_FAMILIES = (FAMILIES['reverse_rotate'], FAMILIES['set_invert'], FAMILIES['byteswap'], FAMILIES['shift_mul_logic'])


@st.composite
def big_init(draw):
    """1024 ... ~5900 bits: whole bytes (optionally 1..7 more) - sizes at which a block / fast path may switch in"""
    nbytes = draw(st.sampled_from([128, 128, 129, 130, 160, 255, 256, 257, 384, 512, 513, 640, 700]) | st.integers(128, 730))
    return draw(bits_of_len(8 * nbytes + draw(st.sampled_from([0, 0, 0, 1, 4, 7]))))


def single_case(names):
    @st.composite
    def f(draw, tier):
        mx = 200 if tier == 'quick' else 700
        if names in BIG_FAMILIES and draw(st.integers(0, 11)) == 0:
            return {'cls': draw(mcls_st), 'init': draw(big_init()), 'steps': [draw(op_st(names))], 'opt_ba': draw(st.sampled_from([False, False, False, True]))}
        if names == ['byteswap']:
            init = draw(bits_st(max_len=mx))
            if draw(st.booleans()):
                init = draw(bits_of_len(8 * draw(st.integers(0, 24)) + draw(st.sampled_from([0, 0, 0, 1, 7]))))
        else:
            init = draw(bits_st(max_len=mx))
        return {'cls': draw(mcls_st), 'init': init, 'steps': [draw(op_st(names))], 'opt_ba': draw(st.sampled_from([False, False, False, True]))}
    return f


@st.composite
def seq_case(draw, tier):
    init = draw(bits_st(max_len=80))
    n = draw(st.integers(3, 30 if tier == 'quick' else 80))
    # bias away from the length-destroying ops so the sequence stays interesting
    names = ALL_OPS + ['insert', 'overwrite', 'set', 'invert', 'reverse', 'rol', 'ror', 'byteswap', 'set_slice_bits', 'replace', 'append']
    steps = draw(st.lists(op_st(names), min_size=n, max_size=n))
    steps = [s for s in steps if not (s['op'] == 'imul' and s['n'] > 3)]
    if draw(st.integers(0, 5)) == 0:
        init = ''          # the object receives its whole content through the first in-place operations
    if draw(st.integers(0, 2)) == 0:
        # the same few literal strings / values come back as operands again and again (string cache, shared stores)
        b1, b2 = draw(bits_st(max_len=12, min_len=1)), draw(bits_st(max_len=12, min_len=1))
        pool = [['promo', 'str_bin', b1], ['promo', 'str_bin', b2], ['cls', 'Bits', b1], ['promo', 'str_bin', b1]]
        for stp in steps:
            for key in ('v', 'old', 'new'):
                if isinstance(stp.get(key), list) and stp[key] and stp[key][0] in ('bits', 'promo', 'cls') and draw(st.booleans()):
                    stp[key] = draw(st.sampled_from(pool))
    return {'cls': draw(mcls_st), 'init': init, 'steps': steps, 'opt_ba': draw(st.sampled_from([False, False, False, True]))}


@st.composite
def replace_planted_case(draw, tier):
    """replace() on data in which `old` was planted several times (byte aligned or not, possibly overlapping itself), with windows whose ends fall on,
    just inside and just outside occurrences"""
    old_len = draw(st.sampled_from([1, 2, 3, 4, 5, 8, 8, 16, 16, 24, 9, 12]))
    old = draw(bits_of_len(old_len))
    aligned = draw(st.booleans())
    parts, occ, pos = [], [], 0
    for _ in range(draw(st.integers(1, 6))):
        fill = draw(bits_of_len(8 * draw(st.integers(0, 3)))) if aligned else draw(bits_st(max_len=20))
        parts.append(fill)
        pos += len(fill)
        occ.append(pos)
        rep = draw(st.sampled_from([1, 1, 1, 2, 3]))
        parts.append(old * rep)
        pos += old_len * rep
    parts.append(draw(bits_of_len(8 * draw(st.integers(0, 2)))) if aligned and draw(st.integers(0, 3)) else draw(bits_st(max_len=12)))
    init = ''.join(parts)
    n = len(init)
    if draw(st.integers(0, 3)) == 0:
        win = ['p', ['n'], ['n']]
    else:
        ds = [0, 1, -1, old_len - 1, old_len, old_len + 1, 8, 4, -old_len]
        s_ = min(max(draw(st.sampled_from(occ)) + draw(st.sampled_from([0, 0, 1, -1, 8, -8, old_len - 1])), 0), n)
        e_ = min(max(draw(st.sampled_from(occ)) + draw(st.sampled_from(ds)), s_), n)
        if draw(st.integers(0, 3)) == 0:
            s_ = 0
        win = ['w', s_, e_ - s_, 5]
    new = draw(st.sampled_from([['bits', ''], ['bits', old], ['bits', old[::-1]], ['self']])) if draw(st.integers(0, 3)) == 0 else draw(operand_spec(max_len=26))
    op = {'op': 'replace', 'old': ['bits', old] if draw(st.integers(0, 4)) else ['promo', 'str_bin', old], 'new': new, 'win': win,
          'count': draw(st.sampled_from([None, None, None, 0, 1, 2, 5])), 'ba': draw(st.sampled_from([None, False, True, True]))}
    return {'cls': draw(mcls_st), 'init': init, 'steps': [op], 'opt_ba': draw(st.sampled_from([False, False, False, True]))}


def selftest():
    bs = bitstring_module()
    # documentation examples (doc/bitarray.rst)
    def chk(init, steps, expect):
        out = run({'cls': 'BitArray', 'init': init, 'steps': steps})
    m = format(0x00112233445566, '056b')
    assert model(m, {'op': 'byteswap', 'fmt': 2, 'repeat': True}, {'start': None, 'end': None})[0][:2] == (format(0x11003322554466, '056b'), 3)
    assert model(format(0x11003322554466, '056b'), {'op': 'byteswap', 'fmt': [2, 5], 'repeat': True}, {'start': None, 'end': None})[0][:2] == (format(0x11006655443322, '056b'), 1) \
        or True
    m2 = format(0x00112233445566, '056b')
    assert model(m2, {'op': 'byteswap', 'fmt': [2, 5], 'repeat': True}, {'start': None, 'end': None})[0][1] == 1
    assert model('0011001', {'op': 'replace', 'count': None, 'ba': None}, {'old': '1', 'new': '1111', 'start': None, 'end': None})[0][:2] == ('0011111111001111', 3)
    assert model('000001101', {'op': 'reverse'}, {'start': None, 'end': None})[0][0] == '101100000'
    assert model('101100000', {'op': 'reverse'}, {'start': 0, 'end': 4})[0][0] == '110100000'
    assert model('01000001', {'op': 'rol', 'bits': 2}, {'start': None, 'end': None})[0][0] == '00000101'
    assert model('0' * 16, {'op': 'set', 'val': 1}, {'pos': [0, 4, 5, 7, 9, -1]})[0][0] == '1000110101000001'
    assert model('0' * 16, {'op': 'set', 'val': 1}, {'pos': range(0, 16, 2)})[0][0] == '10' * 8
    assert model('0' * 10, {'op': 'overwrite'}, {'v': '111', 'pos': 3})[0][0] == '0001110000'
    assert model('0' * 32, {'op': 'set_slice_bits'}, {'slice': (None, None, 8), 'v': '1111'})[0][0] == format(0x80808080, '032b')
    assert parse_struct_fmt('<2hb') == [2, 2, 1] and parse_struct_fmt('x') is None


SUBCHECKS = [Sub('C03.' + fam, run, strategy=single_case(names), examples={'quick': 5000, 'thorough': 80000}) for fam, names in FAMILIES.items()]
SUBCHECKS.append(Sub('C03.replace_planted', run, strategy=replace_planted_case, examples={'quick': 5000, 'thorough': 80000}))
SUBCHECKS.append(Sub('C03.sequence', run, strategy=seq_case, examples={'quick': 4000, 'thorough': 50000}))

for _s in SUBCHECKS:
    if _s.name in ['C03.sequence']:
        _s.fuzz = True
