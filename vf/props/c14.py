"""C14 - Array behaves as a list of fixed-width items over one contiguous bit buffer.

Model: (list of item bit-strings of width w, trailing bit string, dtype descriptor). Values are converted with the
reference codecs (vf.codecs, and the exact exotic-float model of C11), so the data layout is checked bit for bit."""
import array as pyarray
import copy
import math
import operator

from hypothesis import strategies as st

from vf.engine import Sub, require, bitstring_module, Violation
from vf.common import bits_st, bits_of_len, attempt, is_raised, mk, index_st, slice_st, to_bytes
from vf import codecs
from vf.codecs import same_value
from vf.props import c11

RULE = ("case = (dtype, initial items, optional trailing bits, 1..N list operations / operators); dtypes: uintN/intN (1..70), le/be/ne whole bytes, hexN, binN, "
        "octN, bool, float16/32/64 in every endianness, bfloat, the 8/6/4-bit floats, bytesN, struct codes with every prefix, Dtype objects. After every "
        "step a.data.bin == ''.join(item encodings) + trailing, len/tolist/trailing_bits agree with the list model. Non-trivial = >= 3 items and (item width "
        "not 1 or 8, or bytesN, or trailing bits present); distinct = SHA-1 of the case.")
ASSUMPTIONS = ["append/extend/reverse with trailing bits must raise ValueError (documented)", "float items are compared by bit pattern (NaN by NaN-ness)",
               "operators whose Python result is not of the result dtype's kind (/ on integer Arrays) are not generated",
               "a += other_array rebinding to a new Array is accepted; only 'a failing in-place operator leaves the Array unchanged' is asserted for it"]

EXOTIC = {'p3binary': 8, 'p4binary': 8, 'e4m3mxfp': 8, 'e5m2mxfp': 8, 'e3m2mxfp': 6, 'e2m3mxfp': 6, 'e2m1mxfp': 4}
STRUCT = {'b': ('int', 8), 'B': ('uint', 8), 'h': ('int', 16), 'H': ('uint', 16), 'l': ('int', 32), 'L': ('uint', 32), 'q': ('int', 64), 'Q': ('uint', 64),
          'e': ('float', 16), 'f': ('float', 32), 'd': ('float', 64)}
ENDIAN_SUFFIX = {'>': '', '<': 'le', '=': 'ne', '@': 'ne'}


class DT:
    """dtype descriptor: spec (what is passed to Array), name (codec name), w (item width in bits)"""

    def __init__(self, spec, name, w, obj=False):
        self.spec, self.name, self.w, self.obj = spec, name, w, obj

    def make(self, bs):
        if self.obj:
            L = self.w // 8 if codecs.canon(self.name) == 'bytes' else self.w
            return bs.Dtype(self.name) if self.name in EXOTIC or self.name in ('bool', 'bfloat', 'bfloatle') else bs.Dtype(self.name, L)
        return self.spec

    def enc(self, v):
        if self.name in EXOTIC:
            return format(c11.FORMATS[self.name].encode(float(v)), f'0{self.w}b')
        if codecs.canon(self.name) in ('float', 'floatle'):
            try:
                return codecs.encode(self.name, float(v), self.w)
            except OverflowError:
                return codecs.encode(self.name, math.copysign(math.inf, v), self.w)
        return codecs.encode(self.name, v, self.w)

    def dec(self, bits):
        if self.name in EXOTIC:
            return c11.FORMATS[self.name].decode_float(int(bits, 2))
        return codecs.decode(self.name, bits)

    @property
    def kind(self):
        c = codecs.canon(self.name) if self.name not in EXOTIC else 'exotic'
        if c in ('uint', 'uintbe', 'uintle'):
            return 'uint'
        if c in ('int', 'intbe', 'intle'):
            return 'int'
        if c in ('float', 'floatle', 'bfloat', 'bfloatle', 'exotic'):
            return 'float'
        return c


def dt_from_json(j):
    return DT(j['spec'], j['name'], j['w'], j.get('obj', False))


@st.composite
def dtype_st(draw, numeric_only=False):
    k = draw(st.integers(0, 13))
    obj = draw(st.integers(0, 5)) == 0
    if k <= 2:
        name = draw(st.sampled_from(['uint', 'int', 'u', 'i']))
        w = draw(st.sampled_from([1, 2, 3, 4, 5, 7, 8, 9, 12, 16, 17, 31, 32, 33, 63, 64, 65, 70]))
        return {'spec': f'{name}{w}', 'name': name, 'w': w, 'obj': obj}
    if k == 3:
        name = draw(st.sampled_from(['uintle', 'intle', 'uintbe', 'intbe', 'uintne', 'intne']))
        w = 8 * draw(st.integers(1, 9))
        return {'spec': f'{name}{w}', 'name': name, 'w': w, 'obj': obj}
    if k == 4:
        name = draw(st.sampled_from(['float', 'floatle', 'floatbe', 'floatne', 'f']))
        w = draw(st.sampled_from([16, 32, 64]))
        return {'spec': f'{name}{w}', 'name': name, 'w': w, 'obj': obj}
    if k == 5:
        name = draw(st.sampled_from(['bfloat', 'bfloatle']))
        return {'spec': name, 'name': name, 'w': 16, 'obj': obj}
    if k == 6:
        code = draw(st.sampled_from(sorted(STRUCT)))
        e = draw(st.sampled_from('<>=@'))
        nm, w = STRUCT[code]
        suffix = ENDIAN_SUFFIX[e] if w > 8 else ''
        name = nm + suffix if suffix else nm
        if nm == 'float' and suffix == '':
            name = 'float'
        return {'spec': e + code, 'name': name, 'w': w}
    if numeric_only:
        return {'spec': 'int16', 'name': 'int', 'w': 16}
    if k == 7:
        name = draw(st.sampled_from(sorted(EXOTIC)))
        return {'spec': name, 'name': name, 'w': EXOTIC[name], 'obj': obj}
    if k == 8:
        name = draw(st.sampled_from(['hex', 'h']))
        w = 4 * draw(st.integers(1, 6))
        return {'spec': f'{name}{w}', 'name': name, 'w': w, 'obj': obj}
    if k == 9:
        name = draw(st.sampled_from(['bin', 'b']))
        w = draw(st.integers(1, 12))
        return {'spec': f'{name}{w}', 'name': name, 'w': w, 'obj': obj}
    if k == 10:
        w = 3 * draw(st.integers(1, 6))
        return {'spec': f'oct{w}', 'name': 'oct', 'w': w, 'obj': obj}
    if k == 11:
        return {'spec': 'bool', 'name': 'bool', 'w': 1, 'obj': obj}
    if k == 12:
        nb = draw(st.integers(1, 5))
        return {'spec': f'bytes{nb}', 'name': 'bytes', 'w': 8 * nb, 'obj': obj}
    w = draw(st.integers(1, 20))
    return {'spec': f'bits{w}', 'name': 'bits', 'w': w, 'obj': obj}


def value_arg(dt, bits, bs, style=0):
    """python value to hand to the Array for an item with these bits"""
    v = dt.dec(bits)
    if codecs.canon(dt.name) == 'bits' if dt.name not in EXOTIC else False:
        return bs.Bits(bin=bits)
    return v


def values_equal(dt, got, bits):
    if dt.name not in EXOTIC and codecs.canon(dt.name) == 'bits':
        return hasattr(got, 'bin') and got.bin == bits
    exp = dt.dec(bits)
    return same_value(got, exp) if not isinstance(exp, float) else (isinstance(got, float) and (c11.same_float(got, exp)))


# ---------------------------------------------------------------------------------------------
# the machine

class AM:
    def __init__(self, bs, dt, items, trailing):
        self.bs, self.dt = bs, dt
        self.items = list(items)
        self.trail = trailing
        vals = [value_arg(dt, b, bs) for b in items]
        self.a = bs.Array(dt.make(bs), vals)
        if trailing:
            self.a.data.append(mk('Bits', trailing))

    @property
    def w(self):
        return self.dt.w

    def check(self, what):
        a = self.a
        want = ''.join(self.items) + self.trail
        got = a.data.bin
        require(got == want, f'Array data is not the concatenation of the item encodings + trailing bits after {what}', got=got[:120], expected=want[:120], dtype=self.dt.spec,
                n_items=len(self.items), trailing=self.trail)
        require(len(a) == len(self.items), f'len(Array) differs from the list model after {what}', got=len(a), expected=len(self.items), dtype=self.dt.spec)
        require(a.trailing_bits.bin == self.trail, f'trailing_bits differs after {what}', got=a.trailing_bits.bin, expected=self.trail)
        require(a.itemsize == self.w, 'itemsize is not the item width in bits', got=a.itemsize, expected=self.w, dtype=self.dt.spec)
        lst = a.tolist()
        require(len(lst) == len(self.items) and all(values_equal(self.dt, g, b) for g, b in zip(lst, self.items)), f'tolist() differs from the decoded items after {what}',
                got=lst[:8], expected=[self.dt.dec(b) for b in self.items[:8]], dtype=self.dt.spec)

    def resplit(self, data):
        w = self.w
        k = len(data) // w
        self.items = [data[i * w:(i + 1) * w] for i in range(k)]
        self.trail = data[k * w:]

    # ----- steps
    def step(self, s):
        getattr(self, 'do_' + s[0])(*s[1:])
        self.check(str(s)[:120])

    def newbits(self, raw):
        return format(raw % (1 << self.w), f'0{self.w}b')

    def do_getitem(self, i):
        n = len(self.items)
        i = rix(i, n)
        got = attempt(lambda: self.a[i])
        if -n <= i < n:
            require(not is_raised(got) and values_equal(self.dt, got, self.items[i]), 'a[i] differs from the list model', i=i, got=got, expected=self.dt.dec(self.items[i]))
        else:
            require(is_raised(got, IndexError), 'a[i] out of range must raise IndexError', i=i, got=got)

    def do_getslice(self, sl):
        a, b, c = rsl(sl, len(self.items))
        got = attempt(lambda: self.a[a:b:c])
        if c == 0:
            require(is_raised(got, ValueError), 'slice step 0 must raise ValueError', got=got)
            return
        exp = self.items[a:b:c]
        require(not is_raised(got), 'a[i:j:k] raised', got=got, slice=(a, b, c))
        require(got.data.bin == ''.join(exp) and len(got) == len(exp), 'a[i:j:k] differs from the list slice', got=got.data.bin[:80], expected=''.join(exp)[:80], slice=(a, b, c))
        require(got is not self.a and type(got) is type(self.a), 'slice must be a new Array')
        if len(got.data):
            got.data.invert()   # must not reach the source (checked by the invariant)

    def do_setitem(self, i, raw):
        n = len(self.items)
        i = rix(i, n)
        nb = self.newbits(raw)
        r = attempt(self.a.__setitem__, i, value_arg(self.dt, nb, self.bs))
        if -n <= i < n:
            require(not is_raised(r), 'a[i] = v raised', got=r, i=i, v=self.dt.dec(nb))
            self.items[i] = canonical(self.dt, nb)
        else:
            require(is_raised(r, IndexError), 'a[i] = v out of range must raise IndexError', got=r, i=i)

    def do_setslice(self, sl, raws):
        a, b, c = rsl(sl, len(self.items))
        new = [self.newbits(x) for x in raws]
        r = attempt(self.a.__setitem__, slice(a, b, c), [value_arg(self.dt, x, self.bs) for x in new])
        if c == 0:
            require(is_raised(r, ValueError), 'slice step 0 must raise ValueError', got=r)
            return
        l = list(self.items)
        try:
            l[a:b:c] = [canonical(self.dt, x) for x in new]
        except ValueError:
            require(is_raised(r, ValueError), 'extended slice assignment with a different item count must raise ValueError', got=r, slice=(a, b, c), n=len(new))
            return
        require(not is_raised(r), 'slice assignment raised', got=r, slice=(a, b, c), n=len(new))
        self.items = l

    def do_setslice_alias(self, sl, how):
        """slice assignment whose value is the Array itself, a slice of it or an equal Array of the same dtype: list semantics (the right-hand side is
        evaluated before anything is written)"""
        a, b, c = rsl(sl, len(self.items))
        if how == 'self':
            value, vals = self.a, list(self.items)
        elif how == 'self_reversed_view':
            value, vals = self.a[::-1], list(self.items)[::-1]
        elif how == 'self_head':
            k = len(self.items) // 2
            value, vals = self.a[:k], list(self.items)[:k]
        else:
            value, vals = self.bs.Array(self.dt.make(self.bs), self.a.tolist()), [canonical(self.dt, x) for x in self.items]
        if self.trail and how in ('self', 'equal_array'):
            # an Array with trailing bits on the right-hand side: only its whole items count
            vals = vals[:len(self.items)]
        # items are assigned by value: what is stored is the encoding of the decoded value (e5m2 infinities saturate, duplicate codes collapse)
        vals = [canonical(self.dt, x) for x in vals]
        r = attempt(self.a.__setitem__, slice(a, b, c), value)
        if c == 0:
            require(is_raised(r, ValueError), 'slice step 0 must raise ValueError', got=r)
            return
        l = list(self.items)
        try:
            l[a:b:c] = vals
        except ValueError:
            require(is_raised(r, ValueError), 'extended slice assignment with a different item count must raise ValueError', got=r, slice=(a, b, c), n=len(vals))
            return
        require(not is_raised(r), 'slice assignment from the Array itself raised', got=r, slice=(a, b, c), how=how)
        # items are assigned by value: a NaN stays a NaN, but which NaN code is stored is not a value (the source code or the canonical one)
        if len(self.a.data) >= len(l) * self.w:
            for i, x in enumerate(l):
                v = self.dt.dec(x)
                if isinstance(v, float) and math.isnan(v):
                    actual = self.a.data[i * self.w:(i + 1) * self.w].bin
                    av = self.dt.dec(actual)
                    if isinstance(av, float) and math.isnan(av):
                        l[i] = actual
        self.items = l

    def do_extend_self(self):
        r = attempt(self.a.extend, self.a)
        if self.trail:
            require(is_raised(r, ValueError), 'extend with trailing bits must raise ValueError', got=r)
        else:
            require(not is_raised(r), 'a.extend(a) raised', got=r)
            self.items = self.items + self.items

    def do_delitem(self, i):
        n = len(self.items)
        i = rix(i, n)
        r = attempt(self.a.__delitem__, i)
        if -n <= i < n:
            require(not is_raised(r), 'del a[i] raised', got=r)
            del self.items[i]
        else:
            require(is_raised(r, IndexError), 'del a[i] out of range must raise IndexError', got=r, i=i)

    def do_delslice(self, sl):
        a, b, c = rsl(sl, len(self.items))
        r = attempt(self.a.__delitem__, slice(a, b, c))
        if c == 0:
            require(is_raised(r, ValueError), 'slice step 0 must raise ValueError', got=r)
            return
        require(not is_raised(r), 'del a[i:j:k] raised', got=r, slice=(a, b, c))
        del self.items[a:b:c]

    def do_append(self, raw):
        nb = self.newbits(raw)
        r = attempt(self.a.append, value_arg(self.dt, nb, self.bs))
        if self.trail:
            require(is_raised(r, ValueError), 'append with trailing bits must raise ValueError', got=r)
        else:
            require(not is_raised(r), 'append raised', got=r)
            self.items.append(canonical(self.dt, nb))

    def do_extend(self, raws, how):
        new = [self.newbits(x) for x in raws]
        bs = self.bs
        if how == 'array':
            arg = bs.Array(self.dt.make(bs), [value_arg(self.dt, x, bs) for x in new])
        elif how == 'tuple':
            arg = tuple(value_arg(self.dt, x, bs) for x in new)
        elif how == 'gen':
            arg = (value_arg(self.dt, x, bs) for x in new)
        else:
            arg = [value_arg(self.dt, x, bs) for x in new]
        r = attempt(self.a.extend, arg)
        if self.trail:
            require(is_raised(r, ValueError), 'extend with trailing bits must raise ValueError', got=r)
        else:
            require(not is_raised(r), 'extend raised', got=r, how=how)
            self.items.extend(canonical(self.dt, x) for x in new)

    def do_insert(self, i, raw):
        n = len(self.items)
        i = rix(i, n, wide=True)
        nb = self.newbits(raw)
        r = attempt(self.a.insert, i, value_arg(self.dt, nb, self.bs))
        require(not is_raised(r), 'insert raised', got=r, i=i, n=n)
        self.items.insert(i, canonical(self.dt, nb))

    def do_pop(self, i):
        n = len(self.items)
        if i is None:
            r = attempt(self.a.pop)
            i = -1
        else:
            i = rix(i, n)
            r = attempt(self.a.pop, i)
        if -n <= i < n:
            require(not is_raised(r) and values_equal(self.dt, r, self.items[i]), 'pop returned the wrong item', got=r, expected=self.dt.dec(self.items[i]), i=i)
            self.items.pop(i)
        else:
            require(is_raised(r, IndexError), 'pop from an empty Array / out of range must raise IndexError', got=r, i=i)

    def do_reverse(self):
        r = attempt(self.a.reverse)
        if self.trail:
            require(is_raised(r, ValueError), 'reverse with trailing bits must raise ValueError', got=r)
        else:
            require(not is_raised(r), 'reverse raised', got=r)
            self.items.reverse()

    def do_count(self, i, raw):
        n = len(self.items)
        bits = self.items[i % n] if n and raw % 2 else self.newbits(raw)
        v = value_arg(self.dt, bits, self.bs)
        if isinstance(v, float) and math.isnan(v):
            exp = sum(1 for b in self.items if math.isnan(self.dt.dec(b)))
        elif self.dt.kind == 'float':
            exp = sum(1 for b in self.items if self.dt.dec(b) == v)
        else:
            exp = sum(1 for b in self.items if b == canonical(self.dt, bits))
        r = attempt(self.a.count, v)
        require(r == exp and not is_raised(r), 'count differs from the list model', got=r, expected=exp, value=v if not hasattr(v, 'bin') else v.bin, dtype=self.dt.spec)

    def do_iter_copy_equals(self, how):
        a = self.a
        lst = list(a)
        require(len(lst) == len(self.items) and all(values_equal(self.dt, g, b) for g, b in zip(lst, self.items)), 'iteration differs from the items')
        c = copy.copy(a) if how % 2 else a[:]
        if how % 2:
            require(c.data.bin == a.data.bin, 'copy has different data')
        require(c.equals(a[:]) if not how % 2 else c.equals(a), 'a copy does not equal() its source')
        same = self.bs.Array(self.dt.make(self.bs), a.data)
        require(same.equals(a) and a.equals(same), 'Arrays with the same dtype and data are not equal()')
        if len(a.data):
            same.data.invert(0)
            require(not same.equals(a), 'Arrays with different data are equal()')
        # equals(array.array): the item sizes must agree and then the decoded items decide - not the raw bytes
        if self.w in (8, 16, 32, 64) and self.items and self.dt.kind in ('uint', 'int', 'float'):
            for tc in 'bBhHiIlLqQfd':
                other = pyarray.array(tc)
                if other.itemsize * 8 != self.w:
                    continue
                other.frombytes(to_bytes(''.join(self.items)))
                ol = other.tolist()
                mine = [self.dt.dec(b) for b in self.items]
                if any(isinstance(v, float) and math.isnan(v) for v in ol + mine):
                    continue
                want = (not self.trail) and mine == ol
                got = a.equals(other)
                require(got is want, 'equals(array.array) must be True exactly when there are no trailing bits, the item sizes agree and the items are equal', got=got, expected=want,
                        typecode=tc, dtype=self.dt.spec, mine=mine[:4], theirs=ol[:4])
        require(a.tobytes() == mk('Bits', a.data.bin).tobytes(), 'tobytes differs from the data bytes')

    def do_astype(self):
        b = self.a.astype(self.dt.make(self.bs))
        require(b.data.bin == ''.join(canonical(self.dt, x) for x in self.items), 'astype(same dtype) does not reproduce the item encodings', got=b.data.bin[:80])

    def do_astype_other(self, dj):
        """astype to another dtype of the same kind (int -> int, float -> float): values converted item by item"""
        nd = dt_from_json(dj)
        if self.dt.kind not in ('uint', 'int', 'float') or nd.kind not in ('uint', 'int', 'float') or (self.dt.kind == 'float') != (nd.kind == 'float'):
            return
        vals = [self.dt.dec(b) for b in self.items]
        try:
            if nd.kind == 'float':
                exp = ''.join(nd.enc(v) for v in vals)
            else:
                exp = ''.join(nd.enc(int(v)) for v in vals)
        except (ValueError, OverflowError):
            exp = None
        r = attempt(self.a.astype, nd.make(self.bs))
        if exp is None:
            require(is_raised(r, ValueError), 'astype to a dtype that cannot hold an item must raise', got=r if is_raised(r) else r.tolist()[:6], src=self.dt.spec, dst=nd.spec)
        else:
            require(not is_raised(r) and len(r.data) == len(exp), 'astype does not convert the items value by value', got=r if is_raised(r) else len(r.data), expected=len(exp), src=self.dt.spec, dst=nd.spec)
            got = r.data.bin
            for i, v in enumerate(vals):
                g, e = got[i * nd.w:(i + 1) * nd.w], exp[i * nd.w:(i + 1) * nd.w]
                if isinstance(v, float) and math.isnan(v):
                    # a NaN stays a NaN; which NaN (sign, payload) is not a value
                    gv = nd.dec(g)
                    require(isinstance(gv, float) and math.isnan(gv), 'astype turned a NaN item into a number', got=g, src=self.dt.spec, dst=nd.spec)
                else:
                    require(g == e, 'astype does not convert the items value by value', item=i, got=g, expected=e, value=v, src=self.dt.spec, dst=nd.spec)
            require(r is not self.a, 'astype must return a new Array')

    def do_set_dtype(self, dj):
        nd = dt_from_json(dj)
        data = ''.join(self.items) + self.trail
        r = attempt(setattr, self.a, 'dtype', nd.make(self.bs))
        require(not is_raised(r), 'changing dtype raised', got=r, dtype=nd.spec)
        require(self.a.data.bin == data, 'changing dtype altered the data')
        self.dt = nd
        self.resplit(data)

    def do_bad_dtype(self, spec):
        data = self.a.data.bin
        r = attempt(setattr, self.a, 'dtype', spec)
        require(is_raised(r, ValueError), 'an inappropriate dtype must raise ValueError', got=r, spec=spec)
        require(self.a.data.bin == data, 'a rejected dtype change altered the data')

    def do_data_edit(self, how, bits):
        data = ''.join(self.items) + self.trail
        if how == 'append':
            self.a.data.append(mk('Bits', bits))
            data += bits
        elif how == 'del_end' and data:
            k = 1 + len(bits) % min(len(data), 7)
            del self.a.data[-k:]
            data = data[:-k]
        elif how == 'prepend':
            self.a.data.prepend(mk('Bits', bits))
            data = bits + data
        self.resplit(data)

    def do_byteswap(self):
        r = attempt(self.a.byteswap)
        if self.w % 8:
            require(is_raised(r, ValueError), 'byteswap of a non whole-byte dtype must raise ValueError', got=r)
            return
        require(not is_raised(r), 'byteswap raised', got=r)
        self.items = [''.join(reversed([b[i:i + 8] for i in range(0, self.w, 8)])) for b in self.items]

    def do_bitwise(self, op, raw, inplace):
        v = self.newbits(raw)
        f = {'and': operator.and_, 'or': operator.or_, 'xor': operator.xor}[op]
        fi = {'and': operator.iand, 'or': operator.ior, 'xor': operator.ixor}[op]
        exp = [format(f(int(b, 2), int(v, 2)), f'0{self.w}b') for b in self.items]
        if inplace:
            r = attempt(fi, self.a, mk('Bits', v))
            require(not is_raised(r) and r is self.a, 'in-place bitwise operator failed', got=r)
            self.items = exp
        else:
            r = attempt(f, self.a, mk('Bits', v))
            require(not is_raised(r) and r.data.bin == ''.join(exp), 'bitwise operator differs from the per-item result', got=r if is_raised(r) else r.data.bin[:80], expected=''.join(exp)[:80])
            # promotable right operands and the reflected form (left operand a str / bytes, which do not define the operator themselves)
            before = self.a.data.bin
            others = ['0b' + v] + ([bytes(int(v[i:i + 8], 2) for i in range(0, self.w, 8))] if self.w % 8 == 0 else [])
            for o in others:
                r2 = attempt(f, self.a, o)
                require(not is_raised(r2) and r2.data.bin == ''.join(exp), 'bitwise operator with a promotable right operand differs from the per-item result', got=r2 if is_raised(r2) else r2.data.bin[:80],
                        expected=''.join(exp)[:80], operand=type(o).__name__)
                r3 = attempt(f, o, self.a)
                require(not is_raised(r3) and r3.data.bin == ''.join(exp) and str(r3.dtype) == str(self.a.dtype), 'reflected bitwise operator (scalar op Array) differs from the per-item result',
                        got=r3 if is_raised(r3) else r3.data.bin[:80], expected=''.join(exp)[:80], operand=type(o).__name__)
            require(self.a.data.bin == before, 'a non-in-place bitwise operator modified the Array')
        bad = attempt(f, self.a, mk('Bits', v + '1'))
        require(is_raised(bad, ValueError), 'bitwise operator with a wrongly sized operand must raise ValueError', got=bad)


def canonical(dt, bits):
    """the bits an item holds after being stored from its decoded value (NaN payloads and exotic-float duplicates collapse)"""
    v = dt.dec(bits)
    if isinstance(v, float):
        return dt.enc(v)
    return bits


def rix(spec, n, wide=False):
    t = spec[0]
    if t == 'b':
        return [0, 1, n - 1, n, n + 1, -1, -n, -n - 1, n // 2, -2, n + 5, -n - 5][spec[1] % 12]
    if t == 'in':
        return spec[1] % n if n else 0
    return spec[1] % (2 * n + 7) - n - 3


def rsl(spec, n):
    def one(s):
        return None if s is None else rix(s, n)
    return one(spec[0]), one(spec[1]), spec[2]


# ---------------------------------------------------------------------------------------------
# generators

raw = st.integers(0, 2 ** 72)


@st.composite
def ix_spec(draw):
    k = draw(st.integers(0, 9))
    if k < 4:
        return ['b', draw(st.integers(0, 11))]
    if k < 8:
        return ['in', draw(st.integers(0, 1000))]
    return ['u', draw(st.integers(0, 1000))]


@st.composite
def sl_spec(draw):
    return [draw(ix_spec()) if draw(st.integers(0, 2)) else None, draw(ix_spec()) if draw(st.integers(0, 2)) else None,
            draw(st.sampled_from([None, None, 1, 2, 3, -1, -2, -3, 0]))]


@st.composite
def step_st(draw, kinds):
    k = draw(st.sampled_from(kinds))
    if k == 'getitem':
        return [k, draw(ix_spec())]
    if k in ('getslice', 'delslice'):
        return [k, draw(sl_spec())]
    if k == 'setitem':
        return [k, draw(ix_spec()), draw(raw)]
    if k == 'setslice':
        return [k, draw(sl_spec()), draw(st.lists(raw, max_size=4))]
    if k == 'setslice_alias':
        return [k, draw(sl_spec()), draw(st.sampled_from(['self', 'self', 'self_reversed_view', 'self_head', 'equal_array']))]
    if k == 'extend_self':
        return [k]
    if k == 'delitem':
        return [k, draw(ix_spec())]
    if k == 'append':
        return [k, draw(raw)]
    if k == 'extend':
        return [k, draw(st.lists(raw, max_size=4)), draw(st.sampled_from(['list', 'array', 'tuple', 'gen']))]
    if k == 'insert':
        return [k, draw(ix_spec()), draw(raw)]
    if k == 'pop':
        return [k, draw(ix_spec()) if draw(st.booleans()) else None]
    if k in ('reverse', 'astype', 'byteswap'):
        return [k]
    if k == 'count':
        return [k, draw(st.integers(0, 100)), draw(raw)]
    if k == 'iter_copy_equals':
        return [k, draw(st.integers(0, 3))]
    if k == 'set_dtype':
        return [k, draw(dtype_st())]
    if k == 'astype_other':
        return [k, draw(dtype_st(numeric_only=True))]
    if k == 'bad_dtype':
        return [k, draw(st.sampled_from(['uint', 'hex', 'ue', 'nonsense', 'float20', 'uintle12', 'bits', '<', 'int:0x']))]
    if k == 'data_edit':
        return [k, draw(st.sampled_from(['append', 'del_end', 'prepend'])), draw(bits_st(max_len=9, min_len=1))]
    if k == 'bitwise':
        return [k, draw(st.sampled_from(['and', 'or', 'xor'])), draw(raw), draw(st.booleans())]
    raise AssertionError(k)


LIST_OPS = ['getitem', 'getslice', 'setitem', 'setslice', 'setslice_alias', 'extend_self', 'delitem', 'delslice', 'append', 'extend', 'insert', 'pop', 'reverse', 'count', 'iter_copy_equals', 'astype']
ALL_STEPS = LIST_OPS + ['astype_other', 'set_dtype', 'bad_dtype', 'data_edit', 'data_edit', 'byteswap', 'bitwise', 'insert', 'pop', 'setitem']


def case_st(kinds, max_steps=12, trailing_prob=3):
    @st.composite
    def f(draw, tier):
        dj = draw(dtype_st())
        n = draw(st.integers(0, 7))
        items = [format(draw(raw) % (1 << dj['w']), f"0{dj['w']}b") for _ in range(n)]
        trailing = draw(bits_of_len(draw(st.integers(1, max(1, dj['w'] - 1))))) if dj['w'] > 1 and draw(st.integers(0, trailing_prob)) == 0 else ''
        steps = draw(st.lists(step_st(kinds), min_size=1, max_size=max_steps if tier == 'quick' else 2 * max_steps))
        return {'dtype': dj, 'items': items, 'trailing': trailing, 'steps': steps}
    return f


def run(case):
    bs = bitstring_module()
    dt = dt_from_json(case['dtype'])
    items = [canonical(dt, b) for b in case['items']]
    m = AM(bs, dt, items, case['trailing'])
    m.check('construction')
    had_trailing = bool(case['trailing'])
    for s in case['steps']:
        if len(m.items) * m.w > 20000:
            break
        m.step(s)
        had_trailing = had_trailing or bool(m.trail)
    nt = len(case['items']) >= 3 and (dt.w not in (1, 8) or codecs.canon(dt.name) == 'bytes' if dt.name not in EXOTIC else True or had_trailing)
    return {'nt': bool(nt or (had_trailing and len(case['items']) >= 3)), 'labels': [dt.kind, 'w=%d' % dt.w if dt.w < 9 else 'w>=9', 'trailing' if had_trailing else 'clean'] + [s[0] for s in case['steps'][:5]]}


# ---------------------------------------------------------------------------------------------
# element-wise operators and promotion

NUMERIC = [('uint', [4, 8, 12, 16, 32, 64]), ('int', [4, 8, 12, 16, 32, 64]), ('uintle', [16, 32]), ('intbe', [16, 24]), ('float', [16, 32, 64]), ('floatle', [32, 64]), ('bfloat', [16])]
ARITH = ['add', 'sub', 'mul', 'floordiv', 'mod', 'truediv', 'lshift', 'rshift']
CMP = ['lt', 'le', 'gt', 'ge', 'eq', 'ne']


@st.composite
def numeric_dtype(draw):
    name, widths = draw(st.sampled_from(NUMERIC))
    w = draw(st.sampled_from(widths))
    return {'spec': name if name == 'bfloat' else f'{name}{w}', 'name': name, 'w': w}


@st.composite
def small_value(draw, dj):
    dt = dt_from_json(dj)
    if dt.kind == 'float':
        v = draw(st.sampled_from([0.0, 1.0, -1.0, 0.5, 2.0, 3.0, -2.5, 100.0, 1e3, 0.1, 65504.0, 1e38, -0.0]) | st.integers(-50, 50).map(float))
        return dt.dec(dt.enc(v))
    lo, hi = codecs.int_range(dt.name, dt.w)
    return draw(st.sampled_from([lo, hi, 0, 1, min(hi, 2), max(lo, -1), hi // 2, min(hi, 7), max(lo, -7)]) | st.integers(max(lo, -40), min(hi, 40)))


@st.composite
def elem_case(draw, tier):
    d1 = draw(numeric_dtype())
    n = draw(st.integers(0, 5))
    xs = [draw(small_value(d1)) for _ in range(n)]
    mode = draw(st.sampled_from(['scalar', 'scalar', 'array', 'array', 'rscalar', 'unary', 'cmp_scalar', 'cmp_array']))
    case = {'d1': d1, 'xs': xs, 'mode': mode, 'inplace': draw(st.booleans()), 'trailing': draw(st.sampled_from(['', '', '1']))}
    k1 = dt_from_json(d1).kind
    if mode in ('array', 'cmp_array'):
        d2 = draw(numeric_dtype()) if draw(st.integers(0, 2)) else d1       # the same dtype on both sides a third of the time
        case['d2'] = d2
        case['ys'] = [draw(small_value(d2)) for _ in range(n if draw(st.integers(0, 9)) else n + 1)]
        if mode == 'cmp_array' and k1 == 'float' and dt_from_json(d2).kind == 'float' and n:
            # comparisons are by value: NaN is unequal to itself, +0.0 equals -0.0 - pair such items up
            specials = [0.0, -0.0, math.nan, math.inf, -math.inf, 1.0]
            for i in range(min(n, len(case['ys']))):
                if draw(st.integers(0, 2)) == 0:
                    u, v = draw(st.sampled_from(specials)), draw(st.sampled_from(specials))
                    du, dv = dt_from_json(d1), dt_from_json(d2)
                    try:
                        case['xs'][i], case['ys'][i] = du.dec(du.enc(u)), dv.dec(dv.enc(v))
                    except (ValueError, OverflowError, TypeError):
                        pass
        k2 = dt_from_json(d2).kind
        both_int = k1 != 'float' and k2 != 'float'
        ops = (['add', 'sub', 'mul', 'floordiv', 'mod'] + (['lshift', 'rshift'] if both_int else []) + ([] if both_int else ['truediv'])) if mode == 'array' else CMP
        case['op'] = draw(st.sampled_from(ops))
        if case['op'] in ('lshift', 'rshift'):
            # shift counts stay small: x << 2**63 is a memory bomb in any implementation, outside the property's domain
            lo2, hi2 = codecs.int_range(d2['name'], d2['w'])
            case['ys'] = [max(lo2, min(hi2, y % 70 if y >= 0 else -1)) for y in case['ys']]
    elif mode in ('scalar', 'rscalar', 'cmp_scalar'):
        if k1 == 'float':
            case['y'] = draw(st.sampled_from([0.0, 1.0, 2.0, -1.5, 0.5, 3, 1e30, 7]))
            ops = ['add', 'sub', 'mul', 'truediv', 'floordiv', 'mod'] if mode == 'scalar' else (['add', 'sub', 'mul'] if mode == 'rscalar' else CMP)
        else:
            case['y'] = draw(st.sampled_from([0, 1, 2, 3, -1, 7, 10, 255, 1000, -3]))
            ops = ['add', 'sub', 'mul', 'floordiv', 'mod', 'lshift', 'rshift'] if mode == 'scalar' else (['add', 'sub', 'mul'] if mode == 'rscalar' else CMP)
        case['op'] = draw(st.sampled_from(ops))
    else:
        case['op'] = draw(st.sampled_from(['neg', 'abs']))
    return case


def promote(d1, d2):
    """documented rules 1-4"""
    k1, k2 = d1.kind, d2.kind
    f1, f2 = k1 == 'float', k2 == 'float'
    if f1 != f2:
        return d1 if f1 else d2
    if f1 and f2:
        return d2 if d2.w > d1.w else d1
    s1, s2 = k1 == 'int', k2 == 'int'
    if s1 != s2:
        return d1 if s1 else d2
    return d2 if d2.w > d1.w else d1


def run_elem(case):
    bs = bitstring_module()
    d1 = dt_from_json(case['d1'])
    xs = case['xs']
    a = bs.Array(d1.make(bs), xs)
    if case['trailing']:
        a.data.append('0b1')
    before = a.data.bin
    mode, opname = case['mode'], case['op']
    f = getattr(operator, opname)

    def encode_all(dt, vals):
        out = []
        for v in vals:
            if dt.kind == 'float':
                out.append(dt.enc(float(v)))
            else:
                if isinstance(v, float) and v != int(v):
                    raise ValueError('not integral')
                out.append(dt.enc(int(v)))
        return ''.join(out)
    if mode == 'unary':
        try:
            exp = encode_all(d1, [f(x) for x in xs])
        except (ValueError, OverflowError):
            exp = None
        res = attempt(f, a)
        rdt = d1
    elif mode in ('scalar', 'cmp_scalar', 'rscalar'):
        y = case['y']
        try:
            vals = [f(x, y) if mode != 'rscalar' else f(y, x) for x in xs]
            exp = ''.join('1' if v else '0' for v in vals) if mode == 'cmp_scalar' else encode_all(d1, vals)
        except (ValueError, OverflowError, ZeroDivisionError):
            exp = None
        rdt = d1
        if mode == 'rscalar':
            res = attempt(f, y, a)
        elif case['inplace'] and mode == 'scalar':
            res = attempt(getattr(operator, 'i' + opname), a, y)
        else:
            res = attempt(f, a, y)
    else:
        d2 = dt_from_json(case['d2'])
        ys = case['ys']
        b = bs.Array(d2.make(bs), ys)
        rdt = promote(d1, d2)
        if len(xs) != len(ys):
            exp = None
        else:
            try:
                vals = [f(x, y) for x, y in zip(xs, ys)]
                exp = ''.join('1' if v else '0' for v in vals) if mode == 'cmp_array' else encode_all(rdt, vals)
            except (ValueError, OverflowError, ZeroDivisionError):
                exp = None
        res = attempt(getattr(operator, 'i' + opname) if case['inplace'] and mode == 'array' else f, a, b)
        require(b.data.bin == ''.join(d2.enc(v) for v in ys), 'operator modified its right operand')
    if exp is None:
        require(is_raised(res, ValueError, TypeError, ZeroDivisionError), 'a result that does not fit (or mismatched lengths) must raise', got=res if is_raised(res) else res.tolist()[:6], case=case)
        require(a.data.bin == before, 'a failing operator changed the Array', before=before[:64], after=a.data.bin[:64], case=case)
        return {'nt': len(xs) >= 1, 'labels': [opname, mode, 'raises']}
    require(not is_raised(res), 'element-wise operator raised although every result fits', got=res, case=case)
    require(res.data.bin == exp, 'element-wise operator differs from mapping the Python operator over the items', got=res.data.bin[:96], expected=exp[:96], case=case, result_dtype=str(res.dtype))
    if mode in ('cmp_scalar', 'cmp_array'):
        require(str(res.dtype) == 'bool', 'comparison must give an Array of bool', got=str(res.dtype))
    elif mode == 'array':
        require(res.dtype.name == bs.Dtype(rdt.make(bs) if not isinstance(rdt.make(bs), str) else rdt.make(bs)).name if rdt.spec[0] not in '<>=@' else True, 'promoted dtype differs from the documented rules',
                got=str(res.dtype), expected=rdt.spec)
        require(res.itemsize == rdt.w, 'promoted dtype has the wrong width', got=res.itemsize, expected=rdt.w, d1=d1.spec, d2=case['d2']['spec'])
    if not (case['inplace'] and mode == 'scalar'):
        require(a.data.bin == before, 'non-in-place operator modified the Array')
    else:
        require(res is a, 'in-place scalar operator must return the same Array')
        require(a.data.bin == exp + ('' if True else ''), 'in-place result differs') if not case['trailing'] else None
    return {'nt': len(xs) >= 2, 'labels': [opname, mode, d1.kind]}


def selftest():
    bs = bitstring_module()
    a = bs.Array('int16', [-5, 100, -4])
    a.dtype = 'int8'
    assert a.tolist() == [-1, -5, 0, 100, -1, -4]
    assert bs.Array('i4', [3, -6, 2, -3, 2, -7]).tobytes() == b':-)'
    d = DT('uint4', 'uint', 4)
    assert d.enc(5) == '0101' and d.dec('0101') == 5
    assert promote(DT('int32', 'int', 32), DT('float16', 'float', 16)).spec == 'float16'
    assert promote(DT('uint20', 'uint', 20), DT('int10', 'int', 10)).spec == 'int10'
    assert promote(DT('int8', 'int', 8), DT('int16', 'int', 16)).spec == 'int16'
    assert promote(DT('float16', 'float', 16), DT('bfloat', 'bfloat', 16)).spec == 'float16'


# every numeric dtype family incl. all the small float formats: (spec, is_float, is_signed_int, width)
PROMO_DTYPES = ([(f'uint{w}', False, False, w) for w in (1, 4, 8, 9, 16, 64)] + [(f'int{w}', False, True, w) for w in (2, 4, 8, 9, 16, 64)] + [('uintle16', False, False, 16), ('intbe24', False, True, 24),
                ('bool', False, False, 1)] + [(f'float{w}', True, False, w) for w in (16, 32, 64)] + [('floatle32', True, False, 32), ('bfloat', True, False, 16), ('bfloatle', True, False, 16),
                ('e8m0mxfp', True, False, 8), ('mxint', True, False, 8), ('e2m1mxfp', True, False, 4), ('e2m3mxfp', True, False, 6), ('e3m2mxfp', True, False, 6), ('e4m3mxfp', True, False, 8),
                ('e5m2mxfp', True, False, 8), ('p3binary', True, False, 8), ('p4binary', True, False, 8)])


def enum_promotion(tier):
    for i in range(len(PROMO_DTYPES)):
        for j in range(len(PROMO_DTYPES)):
            yield {'i': i, 'j': j}


def run_promotion(case):
    """complete dtype x dtype table: [1] * [1] (representable everywhere) has the dtype the documented rules pick, and the value 1"""
    bs = bitstring_module()
    (s1, f1, g1, w1), (s2, f2, g2, w2) = PROMO_DTYPES[case['i']], PROMO_DTYPES[case['j']]
    a, b = bs.Array(s1, [1]), bs.Array(s2, [1])
    d1, d2 = a.dtype, b.dtype
    if f1 != f2:
        want = d1 if f1 else d2           # rule 1: floats win against integers
    elif not f1 and g1 != g2:
        want = d1 if g1 else d2           # rule 2: signed integers win against unsigned integers
    else:
        want = d2 if w2 > w1 else d1      # rule 3: the longer wins; rule 4: in a tie the first
    for opname in ('mul', 'add', 'sub'):
        r = attempt(getattr(operator, opname), a, b)
        if opname != 'mul' and is_raised(r, ValueError):
            continue        # 1 + 1 or 1 - 1 may not fit the promoted dtype (uint1, e8m0mxfp ...): raising is the documented outcome
        require(not is_raised(r), f'[1] {opname} [1] raised', got=r, d1=s1, d2=s2)
        require(r.dtype.name == want.name and r.dtype.bitlength == want.bitlength, 'result dtype is not the one the documented promotion rules pick', op=opname, d1=s1, d2=s2,
                got=str(r.dtype), expected=str(want))
        if opname == 'mul':
            require(float(r[0]) == 1.0, '[1] * [1] is not 1 in the promoted dtype', got=r[0], d1=s1, d2=s2)
    cmp = a <= b
    require(cmp.dtype.name == 'bool' and cmp.tolist() == [True], 'a comparison must give a bool Array', got=str(cmp.dtype))
    require(a.data.bin == bs.Array(s1, [1]).data.bin and b.data.bin == bs.Array(s2, [1]).data.bin, 'an operator modified an operand')
    return {'nt': case['i'] != case['j'], 'labels': []}


SUBCHECKS = [
    Sub('C14.promotion_table', run_promotion, enum=enum_promotion,
        enum_exhaustive_note='every ordered pair of 30 numeric dtypes (uint/int of 6 widths, endian forms, bool, float16/32/64, bfloat, e8m0mxfp, mxint and the seven 8/6/4-bit formats): result dtype of * + - and of a comparison'),
    Sub('C14.list_ops', run, strategy=case_st(LIST_OPS, trailing_prob=1000), examples={'quick': 8000, 'thorough': 120000}, ambient=('bytealigned',)),
    Sub('C14.trailing_bits_frame', run, strategy=case_st(['getitem', 'setitem', 'delitem', 'insert', 'pop', 'setslice', 'delslice', 'append', 'extend', 'reverse', 'data_edit', 'getslice'], trailing_prob=0),
        examples={'quick': 6000, 'thorough': 80000}, ambient=('bytealigned',)),
    Sub('C14.dtype_reinterpret_byteswap_bitwise', run, strategy=case_st(['set_dtype', 'bad_dtype', 'byteswap', 'bitwise', 'data_edit', 'getitem', 'astype', 'astype_other', 'iter_copy_equals'], max_steps=8),
        examples={'quick': 6000, 'thorough': 80000}, ambient=('bytealigned',)),
    Sub('C14.history', run, strategy=case_st(ALL_STEPS, max_steps=25), examples={'quick': 5000, 'thorough': 80000}, ambient=('bytealigned',)),
    Sub('C14.elementwise_promotion', run_elem, strategy=elem_case, examples={'quick': 12000, 'thorough': 200000}, ambient=('bytealigned',)),
]
