"""Cold oracle process for C09: reads one JSON request per line on stdin, answers one JSON line on stdout.

The process imports the package once and never evaluates anything itself. Every request is evaluated in a child forked from that
pristine state (options set, discovered caches cleared as well), so the answer cannot depend on any earlier request - not through
functools caches, not through hand-written tables, class attributes, module globals or objects that an earlier call modified."""
import json
import os
import sys


def evaluate_in_child(req):
    from vf import engine
    from vf.props import c09
    r, w = os.pipe()
    pid = os.fork()
    if pid == 0:
        try:
            os.close(r)
            try:
                engine._CACHES = None
                engine.reset_caches()
                c09.apply_options(req['opts'])
                res = c09.evaluate(req['call'])
            except Exception as e:  # noqa
                res = ['harness-error', type(e).__name__, str(e)[:200]]
            with os.fdopen(w, 'w') as f:
                f.write(json.dumps(res))
        finally:
            os._exit(0)
    os.close(w)
    with os.fdopen(r) as f:
        data = f.read()
    os.waitpid(pid, 0)
    if not data:
        return ['harness-error', 'ChildDied', 'the cold child produced no answer']
    return json.loads(data)


def main():
    from vf import engine
    engine.bitstring_module()
    out = sys.stdout
    for line in sys.stdin:
        line = line.strip()
        if not line:
            continue
        req = json.loads(line)
        if req.get('cmd') == 'caches':
            engine._CACHES = None
            engine.reset_caches()
            out.write(json.dumps({'caches': [n for n, _ in engine._CACHES]}) + '\n')
            out.flush()
            continue
        out.write(json.dumps(evaluate_in_child(req)) + '\n')
        out.flush()


if __name__ == '__main__':
    main()
