"""Cold-cache oracle process for C09: reads one JSON request per line on stdin, answers one JSON line on stdout.
Before every request it sets the option tuple and clears every cache discovered on the package, then evaluates the call."""
import json
import sys


def main():
    from vf import engine
    from vf.props import c09
    engine.bitstring_module()
    out = sys.stdout
    for line in sys.stdin:
        line = line.strip()
        if not line:
            continue
        req = json.loads(line)
        if req.get('cmd') == 'caches':
            engine._CACHES = None
            engine.reset_caches()
            out.write(json.dumps({'caches': [n for n, _ in engine._CACHES]}) + '\n')
            out.flush()
            continue
        try:
            engine._CACHES = None          # rediscover every time: robust against caches created lazily
            engine.reset_caches()
            c09.apply_options(req['opts'])
            res = c09.evaluate(req['call'])
        except Exception as e:  # noqa
            res = ['harness-error', type(e).__name__, str(e)[:200]]
        out.write(json.dumps(res) + '\n')
        out.flush()


if __name__ == '__main__':
    main()
