"""Coverage-guided campaign for one sub-check: atheris (libFuzzer) drives the sub-check's own Hypothesis strategy through
`fuzz_one_input`, so the byte string is the choice sequence of the structured generator and the semantic oracle of the
sub-check sits inside the target. A failing case is written as JSON (the replay file) before the target raises.

usage: python -m vf.fuzz <module> <subcheck> <tier> <seed> <runs> <out_dir> [max_seconds]
"""
import json
import os
import sys
import time


def main():
    modname, subname, tier, seed, runs, out_dir = sys.argv[1:7]
    max_s = int(sys.argv[7]) if len(sys.argv) > 7 else 60
    os.makedirs(out_dir, exist_ok=True)
    import atheris
    with atheris.instrument_imports(include=['bitstring']):
        import bitstring  # noqa
    import importlib
    from vf import engine
    from hypothesis import given, settings, HealthCheck
    mod = importlib.import_module(modname)
    sub = {s.name: s for s in mod.SUBCHECKS}[subname]
    stats = {'execs': 0, 'nontrivial': 0, 'fail': None}
    t0 = time.time()

    @settings(database=None, deadline=None, suppress_health_check=list(HealthCheck))
    @given(case=sub.strategy(tier))
    def test(case):
        stats['execs'] += 1
        kind, info = engine.run_case(sub, case)
        if kind == 'ok' and info.get('nt', True):
            stats['nontrivial'] += 1
        if kind == 'fail':
            stats['fail'] = {'case': case, 'msg': info}
            with open(os.path.join(out_dir, 'failure.json'), 'w') as f:
                json.dump(stats['fail'], f, default=str)
            _dump()
            raise RuntimeError('property violated: ' + info[:300])
        if kind == 'harness':
            with open(os.path.join(out_dir, 'harness.txt'), 'w') as f:
                f.write(info)
            _dump()
            os._exit(3)

    def _dump():
        with open(os.path.join(out_dir, 'stats.json'), 'w') as f:
            json.dump({'execs': stats['execs'], 'nontrivial': stats['nontrivial'], 'wall_s': round(time.time() - t0, 1)}, f)

    import atexit
    fuzz_one = test.hypothesis.fuzz_one_input

    def target(data):
        fuzz_one(data)
        if stats['execs'] % 500 == 0:
            _dump()

    corpus = os.path.join(out_dir, 'corpus')
    os.makedirs(corpus, exist_ok=True)
    argv = [sys.argv[0], f'-runs={runs}', f'-seed={int(seed) or 1}', '-max_len=4096', '-timeout=30', f'-max_total_time={max_s}', f'-artifact_prefix={out_dir}/', '-verbosity=0', corpus]
    atheris.Setup(argv, target)
    atheris.Fuzz()


if __name__ == '__main__':
    main()
