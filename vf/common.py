"""Shared generators and helpers. All cases are JSON-able; real objects are built inside the check body."""
from __future__ import annotations

import array
import io

from hypothesis import strategies as st

from vf.engine import bitstring_module, Violation, require, HarnessError  # noqa

CLASSES = ['Bits', 'BitArray', 'ConstBitStream', 'BitStream']
MUTABLE = ['BitArray', 'BitStream']
IMMUTABLE = ['Bits', 'ConstBitStream']
STREAMS = ['ConstBitStream', 'BitStream']

BOUNDARY_LENGTHS = [0, 1, 2, 3, 7, 8, 9, 15, 16, 17, 31, 32, 33, 63, 64, 65, 127, 128, 129, 255, 256]
LONG_LENGTHS = [1000, 1023, 1024, 1025, 1999, 2000, 2001, 3599, 3600, 3601, 8191, 8192, 8193, 16385]


HUGE_INTS = [2 ** 31, 2 ** 31 - 1, -2 ** 31 - 1, 2 ** 32, 2 ** 63 - 1, 2 ** 63, -2 ** 63 - 1, 2 ** 64, 2 ** 64 + 1, -2 ** 64, 2 ** 100, -2 ** 100]


def cls_of(name):
    return getattr(bitstring_module(), name)


def mk(clsname, bits, pos=None):
    """Build an object of class clsname holding exactly the bits given as a '01' string."""
    c = cls_of(clsname)
    if pos is not None and clsname in STREAMS:
        return c(bin=bits, pos=pos)
    return c(bin=bits)


def binof(x):
    return x.bin


# ---------------------------------------------------------------------------------------------
# strategies

@st.composite
def length_st(draw, max_len=300, long=False):
    k = draw(st.integers(0, 9))
    if k <= 2:
        pool = [l for l in BOUNDARY_LENGTHS if l <= max_len]
        if long:
            pool = pool + [l for l in LONG_LENGTHS if l <= max_len]
        return draw(st.sampled_from(pool))
    if k == 3:
        # block boundaries: small multiples of powers of two, +-1 (buffer/chunk sizes a refactor might introduce)
        j = draw(st.integers(3, 14))
        n = draw(st.integers(1, 3)) * (1 << j) + draw(st.sampled_from([-1, 0, 0, 1]))
        if n <= max_len:
            return n
        return draw(st.integers(0, min(max_len, 40)))
    if k <= 7:
        return draw(st.integers(0, min(max_len, 40)))
    return draw(st.integers(0, max_len))


@st.composite
def bits_st(draw, max_len=300, min_len=0, long=False):
    n = draw(length_st(max_len=max_len, long=long))
    n = max(n, min_len)
    return draw(bits_of_len(n))


@st.composite
def bits_of_len(draw, n):
    if n == 0:
        return ''
    kind = draw(st.integers(0, 9))
    if kind == 0:
        return '0' * n
    if kind == 1:
        return '1' * n
    if kind in (2, 3):
        p = draw(st.integers(1, 9))
        unit = draw(st.text('01', min_size=p, max_size=p))
        return (unit * (n // p + 1))[:n]
    if kind == 4:
        # sparse
        base = draw(st.sampled_from('01'))
        other = '1' if base == '0' else '0'
        k = draw(st.integers(1, 4))
        l = [base] * n
        for _ in range(k):
            l[draw(st.integers(0, n - 1))] = other
        return ''.join(l)
    if n <= 64:
        return draw(st.text('01', min_size=n, max_size=n))
    # long random: draw an integer (cheap for hypothesis) and format it
    v = draw(st.integers(0, (1 << n) - 1))
    return format(v, f'0{n}b')


@st.composite
def index_st(draw, n, extra=3):
    """A plain int index around a length n (in and beyond range)."""
    k = draw(st.integers(0, 3))
    if k == 0:
        if draw(st.integers(0, 11)) == 0:
            return draw(st.sampled_from(HUGE_INTS))   # beyond C long / Py_ssize_t
        return draw(st.sampled_from([0, 1, n - 1, n, n + 1, -1, -n, -n - 1, -n + 1]))
    if k == 1 and n >= 8:
        return 8 * draw(st.integers(0, n // 8))
    return draw(st.integers(-n - extra, n + extra))


@st.composite
def opt_index_st(draw, n, extra=3):
    if draw(st.integers(0, 3)) == 0:
        return None
    return draw(index_st(n, extra))


STEPS = [None, 1, 2, 3, 7, 8, -1, -2, -3, -8]


@st.composite
def slice_st(draw, n, steps=STEPS):
    step = draw(st.sampled_from(steps))
    if draw(st.booleans()) or n == 0:
        return [draw(opt_index_st(n)), draw(opt_index_st(n)), step]
    # a slice that selects something: ordered ends in the direction of the step, either end possibly negative/omitted
    a = draw(st.integers(0, n - 1))
    b = draw(st.integers(a + 1, n))
    lo, hi = a, b
    if step is not None and step < 0:
        lo, hi = b - 1, a - 1  # start high, stop low (stop -1 must be spelled None or -n-1)
        if hi < 0:
            hi = None if draw(st.booleans()) else -n - 1
    def neg(x):
        if x is None or x < 0:
            return x
        return x - n if draw(st.integers(0, 3)) == 0 and x - n < 0 else x
    return [neg(lo), neg(hi), step]


@st.composite
def window_st(draw, n):
    """(start, end) mostly valid windows (0<=s<=e<=n after negative normalisation), sometimes invalid."""
    k = draw(st.integers(0, 9))
    if k == 0:
        return [draw(opt_index_st(n)), draw(opt_index_st(n))]
    a = draw(st.integers(0, n))
    b = draw(st.integers(0, n))
    s, e = min(a, b), max(a, b)
    rs = s
    re_ = e
    m = draw(st.integers(0, 7))
    if m == 0:
        rs = None
        s = 0
    elif m == 1 and n:
        rs = s - n if s - n < 0 else s
    if m == 2:
        re_ = None
        e = n
    elif m == 3 and n and e - n < 0:
        re_ = e - n
    if rs is None or re_ is None:
        pass
    return [rs, re_]


def norm_window(start, end, n):
    """The documented window validation: negative = from the end; must satisfy 0 <= s <= e <= n."""
    s = 0 if start is None else (start + n if start < 0 else start)
    e = n if end is None else (end + n if end < 0 else end)
    if not 0 <= s <= e <= n:
        return None
    return s, e


cls_st = st.sampled_from(CLASSES)
mcls_st = st.sampled_from(MUTABLE)


# ---------------------------------------------------------------------------------------------
# promotable operands

PROMO_KINDS = ['str_bin', 'str_hex', 'bytes', 'bytearray', 'memoryview', 'list', 'tuple', 'bitarray', 'Bits', 'BitArray',
               'ConstBitStream', 'BitStream', 'array', 'gen', 'frozenbitarray', 'BytesIO', 'list_truthy', 'iter_truthy', 'map_truthy',
               'memoryview_H', 'memoryview_I', 'memoryview_2d', 'memoryview_ro', 'array_H', 'bitarray_little', 'bitarray_buffer']


def promo_ok(kind, bits):
    n = len(bits)
    if kind in ('bytes', 'bytearray', 'memoryview', 'array', 'BytesIO', 'memoryview_ro', 'bitarray_buffer'):
        return n % 8 == 0
    if kind in ('memoryview_H', 'memoryview_2d', 'array_H'):
        return n % 16 == 0 and n > 0
    if kind == 'memoryview_I':
        return n % 32 == 0 and n > 0
    if kind == 'str_hex':
        return n % 4 == 0 and n > 0
    if kind == 'str_bin':
        return n > 0
    return True


def to_bytes(bits):
    assert len(bits) % 8 == 0
    return int(bits, 2).to_bytes(len(bits) // 8, 'big') if bits else b''


def make_promotable(kind, bits):
    import bitarray
    if kind == 'str_bin':
        return '0b' + bits
    if kind == 'str_hex':
        return '0x' + format(int(bits, 2), f'0{len(bits) // 4}x')
    if kind == 'bytes':
        return to_bytes(bits)
    if kind == 'bytearray':
        return bytearray(to_bytes(bits))
    if kind == 'memoryview':
        return memoryview(to_bytes(bits))
    if kind == 'list':
        return [c == '1' for c in bits]
    if kind == 'tuple':
        return tuple(int(c) for c in bits)
    if kind == 'gen':
        return (c == '1' for c in bits)
    if kind in ('list_truthy', 'iter_truthy', 'map_truthy'):
        # an iterable is documented to be evaluated item by item for truth: use items other than 0/1/True/False
        T = [2, 'x', -1, 1.5, [0], (None,), True, 7]
        F = [0, '', None, [], 0.0, (), False, {}]
        items = [(T if c == '1' else F)[(i * 7 + len(bits)) % 8] for i, c in enumerate(bits)]
        if kind == 'list_truthy':
            return items
        if kind == 'iter_truthy':
            return iter(items)
        return map(lambda v: v, items)
    if kind == 'bitarray':
        return bitarray.bitarray(bits)
    if kind == 'bitarray_little':
        return bitarray.bitarray(bits, endian='little')     # same bits in index order, other storage order
    if kind == 'bitarray_buffer':
        return bitarray.bitarray(buffer=to_bytes(bits), endian='big')      # read-only bitarray over a bytes object
    # buffers whose items are wider than a byte or that have more than one dimension: the bytes in memory order are the content
    if kind == 'memoryview_H':
        return memoryview(array.array('H', to_bytes(bits)))
    if kind == 'array_H':
        return array.array('H', to_bytes(bits))
    if kind == 'memoryview_I':
        return memoryview(to_bytes(bits)).cast('I')
    if kind == 'memoryview_2d':
        return memoryview(to_bytes(bits)).cast('B', (2, len(bits) // 16))
    if kind == 'memoryview_ro':
        return memoryview(bytearray(to_bytes(bits))).toreadonly()
    if kind == 'frozenbitarray':
        return bitarray.frozenbitarray(bits)
    if kind == 'array':
        return array.array('B', to_bytes(bits))
    if kind == 'BytesIO':
        return io.BytesIO(to_bytes(bits))
    if kind in CLASSES:
        return mk(kind, bits)
    raise HarnessError('unknown promotable kind ' + kind)


@st.composite
def promo_kind_st(draw, bits, kinds=PROMO_KINDS):
    ok = [k for k in kinds if promo_ok(k, bits)]
    return draw(st.sampled_from(ok))


# ---------------------------------------------------------------------------------------------
# outcomes

class Raised:
    def __init__(self, exc):
        self.exc = exc
        self.type = type(exc)

    def __repr__(self):
        return f'Raised({self.type.__name__}: {str(self.exc)[:80]})'


def attempt(fn, *a, **k):
    """Call fn; return its value or a Raised wrapper (never propagates ordinary exceptions)."""
    try:
        return fn(*a, **k)
    except (Violation, HarnessError):
        raise          # the harness' own verdicts are never part of an observed outcome
    except Exception as e:  # noqa
        return Raised(e)


def is_raised(x, *types):
    if not isinstance(x, Raised):
        return False
    if not types:
        return True
    return isinstance(x.exc, types)


def lenbucket(n):
    if n == 0:
        return 'len0'
    if n <= 8:
        return 'len1-8'
    if n <= 64:
        return 'len9-64'
    if n <= 256:
        return 'len65-256'
    if n <= 2000:
        return 'len257-2000'
    return 'len>2000'


# ---------------------------------------------------------------------------------------------
# in-memory construction routes: every route builds an object of class clsname holding exactly `bits`

MEM_ROUTES = ['bin', 'auto_bin', 'hex_or_bin', 'slice_of_longer', 'bytes_offset', 'concat', 'bitarray', 'bitarray_kw', 'iterable', 'from_other_class',
              'fromstring', 'join', 'copy', 'bytesio_offset', 'pack_bits', 'cache_hit', 'bitarray_little', 'bitarray_little_kw', 'frozenbitarray',
              'memoryview_wide', 'memoryview_wide_kw', 'bitarray_buffer', 'iter_truthy', 'memoryview_strided']


POSITIONAL_ROUTES = {'slice_of_longer'}


def build_route(clsname, bits, route, salt=0):
    """Routes that select bits by position are always built under msb0 (their lsb0 behaviour is C12's business), so callers
    may run with options.lsb0 switched on."""
    if route in POSITIONAL_ROUTES:
        o = bitstring_module().options
        was = o.lsb0
        if was:
            o.lsb0 = False
        try:
            return _build_route(clsname, bits, route, salt)
        finally:
            if was:
                o.lsb0 = True
    return _build_route(clsname, bits, route, salt)


def _build_route(clsname, bits, route, salt=0):
    import bitarray as _ba
    bs = bitstring_module()
    c = cls_of(clsname)
    n = len(bits)
    if route == 'bin' or (n == 0 and route in ('auto_bin', 'hex_or_bin', 'fromstring', 'cache_hit')):
        return c(bin=bits)
    if route == 'auto_bin':
        return c('0b' + bits)
    if route == 'hex_or_bin':
        if n % 4 == 0:
            return c(hex=format(int(bits, 2), f'0{n // 4}x'))
        if n % 3 == 0:
            return c(oct=format(int(bits, 2), f'0{n // 3}o'))
        return c(bin='0b' + bits)
    if route == 'slice_of_longer':
        pre = '10110'[:1 + salt % 5]
        post = '0111'[:salt % 4]
        big = c(bin=pre + bits + post)
        return big[len(pre):len(pre) + n]
    if route in ('bytes_offset', 'bytesio_offset'):
        off = salt % 11
        padded = '1' * off + bits
        padded += '1' * (-len(padded) % 8)
        b = to_bytes(padded)
        if route == 'bytes_offset':
            return c(bytes=b, offset=off, length=n)
        return c(io.BytesIO(b), offset=off, length=n)
    if route == 'concat':
        k = (salt % (n + 1)) if n else 0
        return c(bin=bits[:k]) + c(bin=bits[k:])
    if route == 'bitarray':
        return c(_ba.bitarray(bits))
    if route == 'bitarray_kw':
        off = salt % 5
        return c(bitarray=_ba.bitarray('1' * off + bits + '0' * (salt % 3)), offset=off, length=n)
    if route == 'bitarray_little':
        return c(_ba.bitarray(bits, endian='little'))
    if route == 'bitarray_little_kw':
        off = salt % 5
        return c(bitarray=_ba.bitarray('1' * off + bits + '01', endian='little'), offset=off, length=n)
    if route == 'frozenbitarray':
        return c(_ba.frozenbitarray(bits))
    if route == 'bitarray_buffer':
        # a (read-only) bitarray that is a view of somebody else's bytes
        padded = bits + '1' * (-n % 8)
        return c(bitarray=_ba.bitarray(buffer=to_bytes(padded), endian='big'), length=n)
    if route in ('memoryview_wide', 'memoryview_wide_kw'):
        # a buffer whose items are wider than one byte (or that has two dimensions): its bytes in memory order are the content
        off = 8 * (salt % 3) if route == 'memoryview_wide_kw' else 0
        padded = '1' * off + bits
        padded += '1' * (-len(padded) % 32)
        if not padded:
            return c(bytes=memoryview(b''), length=0)
        raw = to_bytes(padded)
        mv = [memoryview(array.array('H', raw)), memoryview(raw).cast('I'), memoryview(raw).cast('B', (2, len(raw) // 2)), memoryview(bytearray(raw)).toreadonly()][salt % 4]
        if route == 'memoryview_wide' and len(padded) == n and n:
            return c(mv)
        return c(bytes=mv, offset=off, length=n)
    if route == 'iter_truthy':
        # a one-shot iterator whose items are truthy / falsy objects other than 0, 1, True, False
        if n > 4000:
            return c(bin=bits)
        return c(make_promotable(['iter_truthy', 'map_truthy', 'list_truthy'][salt % 3], bits))
    if route == 'memoryview_strided':
        # a non-contiguous view: every second byte of a buffer
        if n % 8 or n == 0:
            return c(bytes=memoryview(to_bytes(bits + '0' * (-n % 8))), length=n)
        raw = bytes(b for byte in to_bytes(bits) for b in (byte, 0xa5))
        return c(memoryview(raw)[::2])
    if route == 'iterable':
        if n > 4000:
            return c(bin=bits)
        return c([ch == '1' for ch in bits])
    if route == 'from_other_class':
        other = CLASSES[(CLASSES.index(clsname) + 1 + salt % 3) % 4]
        return c(cls_of(other)(bin=bits))
    if route == 'fromstring':
        return c.fromstring('0b' + bits)
    if route == 'join':
        k = (salt % (n + 1)) if n else 0
        return c().join([bs.Bits(bin=bits[:k]), bs.BitArray(bin=bits[k:])])
    if route == 'copy':
        return c(bin=bits).copy() if salt % 2 else __import__('copy').copy(c(bin=bits))
    if route == 'pack_bits':
        return c(bs.pack('bits', bs.Bits(bin=bits)))
    if route == 'cache_hit':
        bs.Bits('0b' + bits)
        return c('0b' + bits)
    raise HarnessError('unknown route ' + route)


# ---------------------------------------------------------------------------------------------
# large contents are stored compactly in the case (unit repeated to n bits) and expanded at run time

BIG_SIZES = [32767, 32768, 32769, 65535, 65536, 65537, 262144, 524287, 524288, 524289, 524296, 600000, 1048575, 1048576, 1048577, 1100003]


def expand_bits(x):
    if isinstance(x, dict):
        u = x['unit']
        return (u * (x['n'] // len(u) + 1))[:x['n']]
    return x


@st.composite
def big_bits_st(draw):
    unit = draw(st.text('01', min_size=1, max_size=67))
    if '1' not in unit or '0' not in unit:
        unit = unit + '01'
    return {'unit': unit, 'n': draw(st.sampled_from(BIG_SIZES))}
